module go.etcd.io/bbolt/zverif

go 1.25.0

toolchain go1.25.11

require go.etcd.io/bbolt v0.0.0

require (
	github.com/spf13/cobra v1.10.2 // indirect
	github.com/spf13/pflag v1.0.10 // indirect
	golang.org/x/sys v0.46.0 // indirect
)

replace go.etcd.io/bbolt => /repo
