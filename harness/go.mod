module go.etcd.io/bbolt/zverif

go 1.25.0

toolchain go1.25.11

require go.etcd.io/bbolt v0.0.0

require golang.org/x/sys v0.46.0 // indirect

replace go.etcd.io/bbolt => /repo
