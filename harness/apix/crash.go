package apix

import (
	"bytes"
	"crypto/sha256"
	"fmt"
	"os"

	bolt "go.etcd.io/bbolt"
	"go.etcd.io/bbolt/zverif/boltfmt"
	"go.etcd.io/bbolt/zverif/refmodel"
	"go.etcd.io/bbolt/zverif/vsync"
)

const Sector = 512

// unit is one independently persistable piece of an unsynced epoch.
type unit struct {
	ev    int // index of the event in the log slice
	off   int64
	data  []byte
	trunc bool
	size  int64
}

// CrashStats counts what the enumeration covered.
type CrashStats struct {
	Epochs     int
	Images     int // images generated
	Distinct   int // distinct images recovered
	PostImages int // images expected to (and found to) recover to the in-flight state
	TornMeta   int // sub-sector torn meta images
	Recoveries int
}

// apply writes the units onto a copy of base (holes read as zeros).
func applyUnits(base []byte, us []unit) []byte {
	img := append([]byte{}, base...)
	for _, u := range us {
		if u.trunc {
			if int64(len(img)) < u.size {
				img = append(img, make([]byte, u.size-int64(len(img)))...)
			} else {
				img = img[:u.size]
			}
			continue
		}
		end := u.off + int64(len(u.data))
		if int64(len(img)) < end {
			img = append(img, make([]byte, end-int64(len(img)))...)
		}
		copy(img[u.off:], u.data)
	}
	return img
}

// Epoch is the set of operations issued between two completed syncs.
type Epoch struct {
	Base    []byte // durable image at the start of the epoch
	Writes  []unit // whole write / truncate operations in issue order
	HasMeta bool   // the epoch contains a write to a meta page
}

// Epochs splits a log (events of one transaction, executed on top of pre) into sync epochs.
func Epochs(pre []byte, log []*IOEvent, pageSize int) []Epoch {
	var out []Epoch
	durable := append([]byte{}, pre...)
	var cur []unit
	hasMeta := false
	flush := func() {
		if len(cur) > 0 {
			out = append(out, Epoch{Base: durable, Writes: cur, HasMeta: hasMeta})
			durable = applyUnits(durable, cur)
		}
		cur, hasMeta = nil, false
	}
	for i, ev := range log {
		if ev.Err != "" {
			continue
		}
		switch ev.Op {
		case bolt.VerifWrite:
			cur = append(cur, unit{ev: i, off: ev.Off, data: ev.Data})
			if ev.Off < int64(2*pageSize) {
				hasMeta = true
			}
		case bolt.VerifTruncate:
			cur = append(cur, unit{ev: i, trunc: true, size: ev.Off})
		case bolt.VerifFdatasync, bolt.VerifFsync:
			flush()
		}
	}
	flush() // writes never followed by a sync (e.g. NoSync) form a last, open epoch
	return out
}

// sectors splits a write into 512-byte units.
func sectors(u unit) []unit {
	if u.trunc {
		return []unit{u}
	}
	var out []unit
	for o := 0; o < len(u.data); o += Sector {
		e := o + Sector
		if e > len(u.data) {
			e = len(u.data)
		}
		out = append(out, unit{ev: u.ev, off: u.off + int64(o), data: u.data[o:e]})
	}
	return out
}

// Images enumerates the crash images of one epoch and calls cb for each (deduplicated by content).
// Coverage: every subset of whole operations when there are at most maxExh of them, otherwise every subset that
// drops at most 2 or keeps at most 2; for each single write (others all persisted / none persisted) every
// sector prefix, suffix and single sector; every sector subset of a meta page write; and with tornMeta every
// contiguous byte range of the 80 meaningful bytes of a meta write.
func (e *Epoch) Images(pageSize, maxExh int, tornMeta bool, st *CrashStats, cb func(img []byte, desc string) bool) {
	seen := map[[32]byte]bool{}
	emit := func(us []unit, desc string) bool {
		img := applyUnits(e.Base, us)
		st.Images++
		h := sha256.Sum256(img)
		if seen[h] {
			return true
		}
		seen[h] = true
		st.Distinct++
		return cb(img, desc)
	}
	n := len(e.Writes)
	pick := func(mask uint64) []unit {
		var us []unit
		for i := 0; i < n; i++ {
			if mask&(1<<uint(i)) != 0 {
				us = append(us, e.Writes[i])
			}
		}
		return us
	}
	full := uint64(1)<<uint(n) - 1
	if n <= maxExh {
		for m := uint64(0); m <= full; m++ {
			if !emit(pick(m), fmt.Sprintf("ops mask %b of %d", m, n)) {
				return
			}
		}
	} else if n < 63 {
		masks := []uint64{0, full}
		for i := 0; i < n; i++ {
			masks = append(masks, uint64(1)<<uint(i), full&^(uint64(1)<<uint(i)))
			for j := i + 1; j < n; j++ {
				masks = append(masks, uint64(1)<<uint(i)|uint64(1)<<uint(j), full&^(uint64(1)<<uint(i)|uint64(1)<<uint(j)))
			}
		}
		for _, m := range masks {
			if !emit(pick(m), fmt.Sprintf("ops mask %b of %d", m, n)) {
				return
			}
		}
	}
	// sector granularity of each single write
	for i, w := range e.Writes {
		if w.trunc {
			continue
		}
		secs := sectors(w)
		isMeta := w.off < int64(2*pageSize)
		for _, rest := range []uint64{0, full &^ (uint64(1) << uint(i))} {
			others := pick(rest)
			if isMeta && len(secs) <= 8 {
				for m := 0; m < 1<<uint(len(secs)); m++ {
					us := append([]unit{}, others...)
					for k := range secs {
						if m&(1<<uint(k)) != 0 {
							us = append(us, secs[k])
						}
					}
					if !emit(us, fmt.Sprintf("write %d sectors mask %b, others %b", i, m, rest)) {
						return
					}
				}
			} else {
				for k := 1; k < len(secs); k++ {
					if !emit(append(append([]unit{}, others...), secs[:k]...), fmt.Sprintf("write %d first %d sectors, others %b", i, k, rest)) {
						return
					}
					if !emit(append(append([]unit{}, others...), secs[k:]...), fmt.Sprintf("write %d last %d sectors, others %b", i, len(secs)-k, rest)) {
						return
					}
					if !emit(append(append([]unit{}, others...), secs[k]), fmt.Sprintf("write %d only sector %d, others %b", i, k, rest)) {
						return
					}
				}
			}
			if isMeta && tornMeta {
				const meaningful = 16 + 64
				for a := 0; a < meaningful; a++ {
					for b := a + 1; b <= meaningful; b++ {
						st.TornMeta++
						u := unit{ev: w.ev, off: w.off + int64(a), data: w.data[a:b]}
						if !emit(append(append([]unit{}, others...), u), fmt.Sprintf("meta write %d torn to bytes [%d,%d), others %b", i, a, b, rest)) {
							return
						}
					}
				}
			}
		}
	}
}

// RecoverSpec describes what a crash image must recover to.
type RecoverSpec struct {
	PageSize int
	Pre      *refmodel.Node
	PreID    uint64
	Post     *refmodel.Node // nil: no commit in flight
	PostID   uint64
	Cfgs     []Cfg // configurations to reopen with
	Dir      string
}

var recoverSeq int

// Recover writes img to a fresh file, opens it with the real code and checks the C01 oracle.
// It returns which state was recovered ("pre" or "post").
func Recover(img []byte, sp *RecoverSpec, st *CrashStats) (string, *Fail) {
	fail := func(f string, a ...interface{}) *Fail {
		return &Fail{Kind: "mismatch", At: -1, Msg: fmt.Sprintf(f, a...)}
	}
	// what must come back is decided from the image by the independent decoder
	im, err := boltfmt.Load(img, sp.PageSize)
	if err != nil {
		return "", fail("[c01] image has no readable meta at all: %v", err)
	}
	want, wantID, which := sp.Pre, sp.PreID, "pre"
	postSlot := im.Metas[sp.PostID%2]
	if sp.Post != nil && postSlot.Valid && postSlot.Txid == sp.PostID {
		want, wantID, which = sp.Post, sp.PostID, "post"
	} else {
		preSlot := im.Metas[sp.PreID%2]
		if !preSlot.Valid || preSlot.Txid != sp.PreID {
			return "", fail("[c01] the meta page of the last acknowledged commit (txid %d, slot %d) is not intact in the crash image (valid=%v txid=%d %s)",
				sp.PreID, sp.PreID%2, preSlot.Valid, preSlot.Txid, preSlot.Why)
		}
	}
	for ci, cfg := range sp.Cfgs {
		recoverSeq++
		path := fmt.Sprintf("%s/rec%d_%d", sp.Dir, os.Getpid(), recoverSeq)
		if err := os.WriteFile(path, img, 0600); err != nil {
			return "", fail("harness: %v", err)
		}
		st.Recoveries++
		f := recoverOne(path, cfg, sp.PageSize, want, wantID, which, ci == 0)
		os.Remove(path)
		if f != nil {
			f.Msg = fmt.Sprintf("[c01] expecting the %s state (txid %d), reopen with %s: %s", which, wantID, cfg.String(), f.Msg)
			return which, f
		}
	}
	return which, nil
}

func recoverOne(path string, cfg Cfg, pageSize int, want *refmodel.Node, wantID uint64, which string, followUp bool) (f *Fail) {
	poisoned := false
	defer func() {
		if r := recover(); r != nil {
			poisoned = true
			f = &Fail{Kind: "mismatch", At: -1, Msg: fmt.Sprintf("panic during recovery: %v", r)}
		}
	}()
	_ = poisoned
	saved := tap
	SetTap(nil)
	defer SetTap(saved)
	cfg.PageSize = pageSize
	db, err := bolt.Open(path, 0600, cfg.Options())
	if err != nil {
		return &Fail{Kind: "mismatch", At: -1, Msg: "Open failed: " + err.Error()}
	}
	defer db.Close()
	check := func(what string, model *refmodel.Node) *Fail {
		tx, err := db.Begin(false)
		if err != nil {
			return &Fail{Kind: "mismatch", At: -1, Msg: what + ": Begin: " + err.Error()}
		}
		defer func() { _ = tx.Rollback() }()
		got, err := DumpTx(tx, DumpOpts{Backward: true, Gets: true})
		if err != nil {
			return &Fail{Kind: "mismatch", At: -1, Msg: what + ": " + err.Error()}
		}
		if d := refmodel.Diff(got, model, ""); d != "" {
			return &Fail{Kind: "mismatch", At: -1, Msg: what + ": recovered(left) vs expected(right): " + d}
		}
		n := 0
		first := ""
		for e := range vsync.RecvFrom(tx.Check()).Range() {
			if n == 0 {
				first = e.Error()
			}
			n++
		}
		if n > 0 {
			return &Fail{Kind: "mismatch", At: -1, Msg: fmt.Sprintf("%s: Tx.Check reports %d error(s), first: %s", what, n, first)}
		}
		return nil
	}
	if f := check("after recovery", want); f != nil {
		return f
	}
	acct := func(what string) *Fail {
		_, st, err := DecodeFile(path, pageSize)
		if err != nil {
			return &Fail{Kind: "mismatch", At: -1, Msg: what + ": " + err.Error()}
		}
		if len(st.Problems) > 0 {
			return &Fail{Kind: "mismatch", At: -1, Msg: fmt.Sprintf("%s: page accounting: %d problem(s), first: %s", what, len(st.Problems), st.Problems[0])}
		}
		return nil
	}
	if f := acct("after recovery"); f != nil {
		return f
	}
	if !followUp {
		return nil
	}
	// a follow-up write transaction must work and must build on the recovered state
	m2 := want.Clone()
	val := bytes.Repeat([]byte("z"), pageSize/2)
	err = db.Update(func(tx *bolt.Tx) error {
		b, err := tx.CreateBucketIfNotExists([]byte("zz-followup"))
		if err != nil {
			return err
		}
		return b.Put([]byte("k"), val)
	})
	if err != nil {
		return &Fail{Kind: "mismatch", At: -1, Msg: "follow-up transaction failed: " + err.Error()}
	}
	nb, _ := m2.CreateBucketIfNotExists("zz-followup")
	_ = nb.Put("k", val)
	if f := check("after follow-up commit", m2); f != nil {
		return f
	}
	return acct("after follow-up commit")
}
