package apix

import (
	"fmt"
	"os"

	bolt "go.etcd.io/bbolt"
	"go.etcd.io/bbolt/internal/common"
	fl "go.etcd.io/bbolt/internal/freelist"
	"go.etcd.io/bbolt/zverif/boltfmt"
	"go.etcd.io/bbolt/zverif/refmodel"
	"go.etcd.io/bbolt/zverif/vsync"
)

// DecodeFile decodes the state the file at path currently holds (winner meta).
func DecodeFile(path string, pageSize int) (*boltfmt.Image, *boltfmt.State, error) {
	data, err := os.ReadFile(path)
	if err != nil {
		return nil, nil, err
	}
	return DecodeBytes(data, pageSize)
}

func DecodeBytes(data []byte, pageSize int) (*boltfmt.Image, *boltfmt.State, error) {
	im, err := boltfmt.Load(data, pageSize)
	if err != nil {
		return nil, nil, err
	}
	w := im.Winner()
	if w == nil {
		return im, nil, fmt.Errorf("no valid meta page")
	}
	return im, im.Decode(w), nil
}

// Accounting is the outcome of the per-boundary file checks.
type Accounting struct {
	State *boltfmt.State
	Image *boltfmt.Image
}

// CheckFile is the C07/C12 oracle at a transaction boundary: the independent decoder must account for every
// page exactly once, its logical content must equal the model, and the database's own statistics and
// integrity check must agree.
func (x *Exec) CheckFile(what string) (*Accounting, *Fail) { return x.CheckFileSel(what, nil) }

// CheckFileSel is CheckFile restricted to the given failure classes (nil = all):
// format, accounting, stats, freelist, txcheck.
func (x *Exec) CheckFileSel(what string, sel map[string]bool) (*Accounting, *Fail) {
	var first *Fail
	fail := func(class, f string, a ...interface{}) *Fail {
		if sel != nil && !sel[class] {
			return nil
		}
		return &Fail{Kind: "mismatch", At: -1, Msg: what + " [" + class + "]: " + fmt.Sprintf(f, a...)}
	}
	_ = first
	im, st, err := DecodeBytes(x.FileBytes(), x.Cfg.PageSize)
	if err != nil {
		return nil, &Fail{Kind: "mismatch", At: -1, Msg: what + " [format]: " + err.Error()}
	}
	acc := &Accounting{State: st, Image: im}
	if len(st.Problems) > 0 {
		// problems that mean "this is not a well-formed version-2 file" are format problems; the rest is accounting
		for _, p := range st.Problems {
			switch p.Class {
			case "dup-free", "free-order", "free-range", "bad-type", "bounds", "bad-id", "short-file", "key-order":
				if f := fail("format", "malformed file: %s", p); f != nil {
					return acc, f
				}
			}
		}
		if f := fail("accounting", "%d problem(s), first: %s", len(st.Problems), st.Problems[0]); f != nil {
			return acc, f
		}
	}
	if st.Meta.Txid != x.CommittedID {
		if f := fail("format", "winning meta txid %d, expected %d", st.Meta.Txid, x.CommittedID); f != nil {
			return acc, f
		}
	}
	if int(st.Meta.PageSize) != x.Cfg.PageSize {
		if f := fail("format", "meta page size %d, db page size %d", st.Meta.PageSize, x.Cfg.PageSize); f != nil {
			return acc, f
		}
	}
	for i, m := range im.Metas {
		if !m.Valid {
			if f := fail("format", "meta %d invalid (%s) at rest", i, m.Why); f != nil {
				return acc, f
			}
		}
		if m.PageID != uint64(i) || m.PFlags != boltfmt.FlagMeta {
			if f := fail("format", "meta %d page header id=%d flags=%#x", i, m.PageID, m.PFlags); f != nil {
				return acc, f
			}
		}
		if m.Txid%2 != uint64(i) {
			if f := fail("format", "meta slot %d holds txid %d", i, m.Txid); f != nil {
				return acc, f
			}
		}
	}
	if x.LastKind == "commit" && (st.Meta.Freelist == boltfmt.NoFreelist) != x.Cfg.NoFreelistSync {
		if f := fail("format", "freelist persisted=%v but NoFreelistSync=%v", st.Meta.Freelist != boltfmt.NoFreelist, x.Cfg.NoFreelistSync); f != nil {
			return acc, f
		}
	}
	tree, err := FromFmt(st.Root)
	if err != nil {
		if f := fail("format", "%v", err); f != nil {
			return acc, f
		}
	}
	tree.Seq = 0
	for k, e := range tree.Ent {
		if e.Sub == nil {
			if f := fail("format", "root bucket holds plain key %q", k); f != nil {
				return acc, f
			}
		}
	}
	if d := refmodel.Diff(tree, x.Committed, ""); d != "" {
		if f := fail("format", "decoded file(left) vs model(right): %s", d); f != nil {
			return acc, f
		}
	}
	// what the database itself reports
	if x.DB != nil && !x.Poisoned {
		nfree := 0
		for _, u := range st.Use {
			if u == boltfmt.UseFree {
				nfree++
			}
		}
		if !x.Cfg.NoStats && (!x.Cfg.ReadOnly || x.Cfg.PreLoad) {
			s := x.DB.Stats()
			if s.FreePageN+s.PendingPageN != nfree {
				if f := fail("stats", "Stats free %d + pending %d != %d free pages in file", s.FreePageN, s.PendingPageN, nfree); f != nil {
					return acc, f
				}
			}
		}
		if flst := bolt.VerifFreelist(x.DB); flst != nil {
			d := fl.VerifDump(flst)
			mem := map[common.Pgid]bool{}
			for _, id := range d.Free {
				if mem[id] {
					if f := fail("freelist", "in-memory free list holds %d twice", id); f != nil {
						return acc, f
					}
				}
				mem[id] = true
			}
			for _, l := range d.Pending {
				for _, p := range l {
					if mem[p.ID] {
						if f := fail("freelist", "in-memory list holds %d twice (pending)", p.ID); f != nil {
							return acc, f
						}
					}
					mem[p.ID] = true
				}
			}
			if len(mem) != nfree {
				if f := fail("freelist", "in-memory free+pending %d ids, file says %d", len(mem), nfree); f != nil {
					return acc, f
				}
			}
			for id, u := range st.Use {
				if (u == boltfmt.UseFree) != mem[common.Pgid(id)] {
					if f := fail("freelist", "page %d: file use %q, in in-memory list: %v", id, u, mem[common.Pgid(id)]); f != nil {
						return acc, f
					}
				}
			}
		}
		if sel == nil || sel["txcheck"] {
			if f := x.TxCheck(what); f != nil {
				return acc, f
			}
		}
	}
	if fi, err := os.Stat(x.Path); err == nil && uint64(fi.Size()) < st.Meta.Pgid*uint64(x.Cfg.PageSize) {
		if f := fail("accounting", "file length %d below high-water mark", fi.Size()); f != nil {
			return acc, f
		}
	}
	return acc, nil
}

// TxCheck runs the database's own integrity check and the page-type report in a read transaction.
func (x *Exec) TxCheck(what string) *Fail {
	tx, err := x.DB.Begin(false)
	if err != nil {
		return &Fail{Kind: "mismatch", At: -1, Msg: what + ": Begin(false): " + err.Error()}
	}
	defer func() { _ = tx.Rollback() }()
	if x.Cfg.ReadOnly && !x.Cfg.PreLoad {
		return nil
	}
	var errs []string
	for e := range vsync.RecvFrom(tx.Check()).Range() {
		errs = append(errs, e.Error())
	}
	if len(errs) > 0 {
		return &Fail{Kind: "mismatch", At: -1, Msg: fmt.Sprintf("%s [txcheck]: Tx.Check reports %d error(s), first: %s", what, len(errs), errs[0])}
	}
	return nil
}

// CheckPageTypes compares Tx.Page(i).Type with the decoder's use of every page.
func (x *Exec) CheckPageTypes(st *boltfmt.State, what string) *Fail {
	tx, err := x.DB.Begin(false)
	if err != nil {
		return &Fail{Kind: "mismatch", At: -1, Msg: what + ": Begin(false): " + err.Error()}
	}
	defer func() { _ = tx.Rollback() }()
	flCont := map[int]bool{} // continuation pages of a multi-page freelist: no header of their own either
	for i, id := range st.FLPages {
		if i > 0 {
			flCont[int(id)] = true
		}
	}
	for id, u := range st.Use {
		pi, err := tx.Page(id)
		if err != nil || pi == nil {
			return &Fail{Kind: "mismatch", At: -1, Msg: fmt.Sprintf("%s [pagetype]: Tx.Page(%d) = %v, %v", what, id, pi, err)}
		}
		want := u
		if u == boltfmt.UseOverflow || flCont[id] {
			continue // interior of a multi-page allocation: type field is arbitrary data
		}
		if pi.Type != want {
			return &Fail{Kind: "mismatch", At: -1, Msg: fmt.Sprintf("%s [pagetype]: Tx.Page(%d).Type=%q, decoder says %q", what, id, pi.Type, want)}
		}
	}
	if pi, _ := tx.Page(len(st.Use)); pi != nil {
		return &Fail{Kind: "mismatch", At: -1, Msg: fmt.Sprintf("%s [pagetype]: Tx.Page(hwm) not nil", what)}
	}
	return nil
}
