package apix

import (
	"fmt"
	"os"
	"syscall"

	bolt "go.etcd.io/bbolt"
)

// IOEvent is one I/O call issued by the database against its data file.
type IOEvent struct {
	Seq  int
	Op   bolt.VerifOp
	Off  int64  // write offset / truncate size / map size
	Data []byte // payload of a write (aliases the caller's buffer unless Tap.Record is set)
	Len  int
	Err  string // set when the call was failed by the harness
	DB   *bolt.DB
}

func (e *IOEvent) String() string {
	names := map[bolt.VerifOp]string{bolt.VerifWrite: "write", bolt.VerifFdatasync: "fdatasync", bolt.VerifFsync: "fsync", bolt.VerifTruncate: "truncate", bolt.VerifMmap: "mmap"}
	s := fmt.Sprintf("#%d %s", e.Seq, names[e.Op])
	switch e.Op {
	case bolt.VerifWrite:
		s += fmt.Sprintf(" off=%d len=%d", e.Off, e.Len)
	case bolt.VerifTruncate, bolt.VerifMmap:
		s += fmt.Sprintf(" size=%d", e.Off)
	}
	if e.Err != "" {
		s += " FAILED(" + e.Err + ")"
	}
	return s
}

// Tap observes (and may fail) every I/O call. One tap is active per process.
type Tap struct {
	Record bool       // keep a log with copies of the payloads
	Log    []*IOEvent // the I/O log
	N      int        // calls seen
	// OnIO is called for every call before it is executed. Returning a non-nil error fails the call.
	// For a partial write the handler performs the prefix itself with PartialWrite.
	OnIO []func(ev *IOEvent) error
}

var tap *Tap

// mirror mode: the mapping is ordinary memory kept coherent through the write hook (see DESIGN.md 2.7).
type mapping struct {
	buf   []byte
	size  int
	dirty int // bytes [0,dirty) may hold something other than zero
	fsize int // current length of the data file (tracked through the hooks)
}

type region struct {
	buf   []byte
	dirty int
}

var (
	mirrors    = map[*bolt.DB]*mapping{}
	regionPool = map[int][]region{}
	// RealMmap disables the mirror: the database uses the real mmap system call.
	RealMmap = os.Getenv("VERIF_REAL_MMAP") != ""
)

const poisonByte = 0xDB

// getRegion returns a pooled region and the extent of it that may be non-zero.
func getRegion(sz int) region {
	if l := regionPool[sz]; len(l) > 0 {
		r := l[len(l)-1]
		regionPool[sz] = l[:len(l)-1]
		return r
	}
	b, err := syscall.Mmap(-1, 0, sz, syscall.PROT_READ|syscall.PROT_WRITE, syscall.MAP_ANON|syscall.MAP_PRIVATE)
	if err != nil {
		panic(fmt.Sprintf("harness: anonymous mmap of %d bytes: %v", sz, err))
	}
	return region{buf: b}
}

// putRegion poisons the part of the region that was in use (a use-after-unmap then reads garbage, not stale data).
func putRegion(b []byte, dirty int) {
	if dirty > len(b) {
		dirty = len(b)
	}
	p := b[:dirty]
	for i := range p {
		p[i] = poisonByte
	}
	if len(regionPool[len(b)]) < 8 {
		regionPool[len(b)] = append(regionPool[len(b)], region{buf: b, dirty: dirty})
	} else {
		_ = syscall.Munmap(b)
	}
}

func mapHook(db *bolt.DB, sz int) ([]byte, error) {
	f := bolt.VerifFile(db)
	fi, err := f.Stat()
	if err != nil {
		return nil, err
	}
	r := getRegion(sz)
	b := r.buf
	n := int(fi.Size())
	if n > sz {
		n = sz
	}
	if n > 0 {
		if _, err := f.ReadAt(b[:n], 0); err != nil {
			putRegion(b, r.dirty)
			return nil, err
		}
	}
	// beyond the end of the file a real mapping would fault; zeros are the closest harmless stand-in.
	// Only the part a previous user may have left non-zero needs clearing.
	for i := n; i < r.dirty; i++ {
		b[i] = 0
	}
	d := r.dirty
	if n > d {
		d = n
	}
	mirrors[db] = &mapping{buf: b, size: sz, dirty: d, fsize: int(fi.Size())}
	return b, nil
}

func unmapHook(db *bolt.DB, b []byte) error {
	d := len(b)
	if m := mirrors[db]; m != nil {
		d = m.dirty
	}
	delete(mirrors, db)
	putRegion(b, d)
	return nil
}

func mirrorWrite(db *bolt.DB, off int64, data []byte) {
	if m := mirrors[db]; m != nil && off < int64(len(m.buf)) {
		n := copy(m.buf[off:], data)
		if e := int(off) + n; e > m.dirty {
			m.dirty = e
		}
	}
	if m := mirrors[db]; m != nil {
		if e := int(off) + len(data); e > m.fsize {
			m.fsize = e
		}
	}
}

// MirrorBytes returns a copy of the data file's content taken from the coherent mirror (no file I/O); ok=false
// when db has no mirror (real mmap mode) or the file is longer than the mirror.
func MirrorBytes(db *bolt.DB) ([]byte, bool) {
	m := mirrors[db]
	if m == nil || m.fsize > len(m.buf) {
		return nil, false
	}
	return append([]byte{}, m.buf[:m.fsize]...), true
}

// MirrorCoherent compares the mirror of db with the file (detects stray stores into the "mapping").
func MirrorCoherent(db *bolt.DB, file []byte) error {
	m := mirrors[db]
	if m == nil {
		return nil
	}
	n := len(file)
	if n > len(m.buf) {
		n = len(m.buf)
	}
	for i := 0; i < n; i++ {
		if m.buf[i] != file[i] {
			return fmt.Errorf("mapping differs from file at offset %d (page %d): %#x vs %#x", i, i/4096, m.buf[i], file[i])
		}
	}
	return nil
}

func ioHook(db *bolt.DB, op bolt.VerifOp, off int64, buf []byte) error {
	t := tap
	var ev *IOEvent
	if t != nil {
		ev = &IOEvent{Seq: t.N, Op: op, Off: off, Data: buf, Len: len(buf), DB: db}
		t.N++
		if t.Record {
			ev.Data = append([]byte{}, buf...)
			t.Log = append(t.Log, ev)
		}
		for _, h := range t.OnIO {
			if err := h(ev); err != nil {
				ev.Err = err.Error()
				return err
			}
		}
	}
	if op == bolt.VerifWrite {
		mirrorWrite(db, off, buf)
	}
	if op == bolt.VerifTruncate {
		if m := mirrors[db]; m != nil {
			m.fsize = int(off)
		}
	}
	return nil
}

// PartialWrite performs the first n bytes of the write described by ev (used by fault injection before failing it).
func PartialWrite(ev *IOEvent, n int) {
	if n > len(ev.Data) {
		n = len(ev.Data)
	}
	if n <= 0 {
		return
	}
	if _, err := bolt.VerifFile(ev.DB).WriteAt(ev.Data[:n], ev.Off); err != nil {
		panic("harness: partial write failed: " + err.Error())
	}
	mirrorWrite(ev.DB, ev.Off, ev.Data[:n])
}

// SetTap installs t as the active tap (nil removes it). The I/O hook itself is always installed.
func SetTap(t *Tap) { tap = t }

func init() {
	bolt.VerifIOHook = ioHook
	if !RealMmap {
		bolt.VerifMapHook = mapHook
		bolt.VerifUnmapHook = unmapHook
	}
}
