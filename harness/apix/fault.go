package apix

import (
	"fmt"

	bolt "go.etcd.io/bbolt"
	"go.etcd.io/bbolt/zverif/boltfmt"
)

// Fault is a single injected I/O failure: the At-th I/O call (counted from arming) fails.
type Fault struct {
	At    int
	Shape string // "fail": the call fails without effect; "partial": a write stores its first sector, then fails
	seen  int
	armed bool
	Hit   bool
	Kind  bolt.VerifOp
}

func (x *Exec) faultHandler(ev *IOEvent) error {
	if x.probing {
		x.Probe = append(x.Probe, ev.Op)
	}
	f := x.Fault
	if f == nil || !f.armed {
		return nil
	}
	if f.seen == f.At {
		f.armed = false
		f.Hit = true
		f.Kind = ev.Op
		if f.Shape == "partial" && ev.Op == bolt.VerifWrite {
			PartialWrite(ev, Sector)
		}
		return &InjectedError{What: fmt.Sprintf("I/O call %d (%s)", f.At, ev.String())}
	}
	f.seen++
	return nil
}

// ProbeCommit commits the open write transaction of x and returns the kinds of the I/O calls it issued.
// x must not be used afterwards.
func (x *Exec) ProbeCommit() []bolt.VerifOp {
	x.Probe = nil
	x.probing = true
	defer func() {
		x.probing = false
		_ = recover()
	}()
	if x.W != nil {
		_ = x.W.Commit()
		x.W = nil
	}
	return x.Probe
}

// commitWithFault is the C08 operation: commit with the k-th I/O call failing once.
func (x *Exec) commitWithFault(op Op, idx int) *Fail {
	mm := func(format string, a ...interface{}) *Fail {
		return &Fail{Kind: "mismatch", At: idx, Op: op.String(), Msg: fmt.Sprintf(format, a...)}
	}
	if x.W == nil {
		return mm("harness: no write tx")
	}
	x.Fault = &Fault{At: op.N, Shape: op.V, armed: true}
	tx := x.W
	err := tx.Commit()
	x.Fault.armed = false
	x.W, x.Dead = nil, tx
	post := x.WM
	x.WM = nil
	if !x.Fault.Hit {
		return mm("harness: the commit issued fewer than %d I/O calls (nondeterministic I/O count)", op.N+1)
	}
	if err == nil {
		return mm("[c08] Commit returned nil although %s failed", x.Fault.describe())
	}
	if x.Fault.Kind == bolt.VerifMmap {
		x.Unmapped = true
	}
	// Which clause applies is decided from the file: is the in-flight meta completely and validly there?
	data := x.FileBytes()
	im, lerr := boltfmt.Load(data, x.Cfg.PageSize)
	if lerr != nil {
		return mm("[c08] file unreadable after failed commit: %v", lerr)
	}
	slot := im.Metas[(x.CommittedID+1)%2]
	metaWritten := slot.Valid && slot.Txid == x.CommittedID+1
	kind := "commit-failed"
	if metaWritten {
		// exception clause: the transaction must now be entirely present, in memory and on disk alike
		x.PrevCommitted = x.Committed
		x.Committed = post
		x.CommittedID++
		kind = "commit-failed-after-meta"
		for _, r := range x.Readers {
			if r != nil {
				// a reader was open while the final sync failed after a complete meta write (known finding F6)
				x.stick("F6")
			}
		}
		if x.Mon != nil {
			if f := x.Mon.snapshot("after failed final sync"); f != nil {
				return f
			}
		}
	}
	x.LastFault = x.Fault.describe()
	if x.Mon != nil && !x.Unmapped {
		// pages of a version somebody can still see must not have become allocatable through the failure path
		if f := x.Mon.FreeVsVisible("after the failed commit (" + x.LastFault + ")"); f != nil {
			return f
		}
	}
	if x.Unmapped {
		// the documented state after a failed mmap: every Begin reports ErrInvalidMapping until the database is reopened
		if _, e := x.DB.Begin(false); ErrName(e) != "ErrInvalidMapping" {
			return mm("[c08] after the failed mmap Begin(false) returned %v, want ErrInvalidMapping", e)
		}
		if _, e := x.DB.Begin(true); ErrName(e) != "ErrInvalidMapping" {
			return mm("[c08] after the failed mmap Begin(true) returned %v, want ErrInvalidMapping", e)
		}
		return &Fail{Kind: "error", At: idx, Op: op.String(), Msg: "injected " + x.Fault.kindName() + " failure: database unmapped until reopen"}
	}
	if f := x.boundary(kind); f != nil {
		return f
	}
	what := "state unchanged"
	if metaWritten {
		what = "meta was complete: transaction present in memory and on disk"
	}
	// not a failure: reported as the observation class of this transition
	return &Fail{Kind: "error", At: idx, Op: op.String(), Msg: "injected " + x.Fault.kindName() + " failure (" + x.Fault.Shape + "): " + what}
}

func (f *Fault) kindName() string {
	names := map[bolt.VerifOp]string{bolt.VerifWrite: "write", bolt.VerifFdatasync: "fdatasync", bolt.VerifFsync: "fsync", bolt.VerifTruncate: "truncate", bolt.VerifMmap: "mmap"}
	return names[f.Kind]
}

func (f *Fault) describe() string {
	names := map[bolt.VerifOp]string{bolt.VerifWrite: "write", bolt.VerifFdatasync: "fdatasync", bolt.VerifFsync: "fsync", bolt.VerifTruncate: "truncate", bolt.VerifMmap: "mmap"}
	return fmt.Sprintf("I/O call %d (%s, %s)", f.At, names[f.Kind], f.Shape)
}
