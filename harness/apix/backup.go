package apix

import (
	"bytes"
	"fmt"
	"os"

	bolt "go.etcd.io/bbolt"
	"go.etcd.io/bbolt/zverif/boltfmt"
	"go.etcd.io/bbolt/zverif/refmodel"
	"go.etcd.io/bbolt/zverif/vsync"
)

// CheckBackup is the C14 oracle on the bytes a backup produced: they open as a database whose content is want,
// whose pages are all accounted for, and whose meta 0 wins over a valid meta 1.
func CheckBackup(data []byte, pageSize int, want *refmodel.Node, dir string) string {
	im, err := boltfmt.Load(data, pageSize)
	if err != nil {
		return "backup not decodable: " + err.Error()
	}
	for i, m := range im.Metas {
		if !m.Valid {
			return fmt.Sprintf("meta %d of the backup is invalid (%s)", i, m.Why)
		}
	}
	if w := im.Winner(); w.Slot != 0 {
		return fmt.Sprintf("meta 1 (txid %d) wins over meta 0 (txid %d) in the backup", im.Metas[1].Txid, im.Metas[0].Txid)
	}
	st := im.Decode(im.Winner())
	if len(st.Problems) > 0 {
		return fmt.Sprintf("backup page accounting: %s", st.Problems[0])
	}
	tree, err := FromFmt(st.Root)
	if err != nil {
		return err.Error()
	}
	tree.Seq = 0
	if d := refmodel.Diff(tree, want, ""); d != "" {
		return "decoded backup(left) vs snapshot(right): " + d
	}
	backupSeq++
	path := fmt.Sprintf("%s/bk%d_%d", dir, os.Getpid(), backupSeq)
	if err := os.WriteFile(path, data, 0600); err != nil {
		return err.Error()
	}
	defer os.Remove(path)
	saved := tap
	SetTap(nil)
	defer SetTap(saved)
	msg := ""
	func() {
		defer func() {
			if r := recover(); r != nil {
				msg = fmt.Sprintf("panic while opening the backup: %v", r)
			}
		}()
		db, err := bolt.Open(path, 0600, &bolt.Options{})
		if err != nil {
			msg = "backup does not open: " + err.Error()
			return
		}
		defer db.Close()
		_ = db.View(func(tx *bolt.Tx) error {
			got, err := DumpTx(tx, DumpOpts{Backward: true, Gets: true})
			if err != nil {
				msg = err.Error()
				return nil
			}
			if d := refmodel.Diff(got, want, ""); d != "" {
				msg = "opened backup(left) vs snapshot(right): " + d
				return nil
			}
			for e := range vsync.RecvFrom(tx.Check()).Range() {
				if msg == "" {
					msg = "Tx.Check on the backup: " + e.Error()
				}
			}
			return nil
		})
		if msg == "" {
			if err := db.Update(func(tx *bolt.Tx) error {
				_, err := tx.CreateBucketIfNotExists([]byte("zz"))
				return err
			}); err != nil {
				msg = "commit on the backup: " + err.Error()
			}
		}
	}()
	return msg
}

var backupSeq int

func (x *Exec) backup(op Op, idx int) *Fail {
	mm := func(format string, a ...interface{}) *Fail {
		return &Fail{Kind: "mismatch", At: idx, Op: op.String(), Msg: "[c14] " + fmt.Sprintf(format, a...)}
	}
	r := x.Readers[op.N]
	if r == nil {
		return mm("harness: reader %d not open", op.N)
	}
	size := r.Tx.Size()
	var data []byte
	dir := x.Path + ".d"
	_ = os.MkdirAll(dir, 0755)
	defer os.RemoveAll(dir)
	if op.K == "backup" {
		var buf bytes.Buffer
		n, err := r.Tx.WriteTo(&buf)
		if err != nil {
			return mm("WriteTo: %v", err)
		}
		if n != size || int64(buf.Len()) != size {
			return mm("WriteTo returned n=%d and produced %d bytes, Size() is %d", n, buf.Len(), size)
		}
		data = buf.Bytes()
	} else {
		p := dir + "/copy.db"
		if err := r.Tx.CopyFile(p, 0600); err != nil {
			return mm("CopyFile: %v", err)
		}
		var err error
		data, err = os.ReadFile(p)
		if err != nil {
			return mm("harness: %v", err)
		}
		if int64(len(data)) != size {
			return mm("CopyFile produced %d bytes, Size() is %d", len(data), size)
		}
	}
	if msg := CheckBackup(data, x.Cfg.PageSize, r.M, dir); msg != "" {
		return mm("backup through a reader of version %d while the newest version is %d: %s", r.ID, x.CommittedID, msg)
	}
	return nil
}
