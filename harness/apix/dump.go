package apix

import (
	"bytes"
	"errors"
	"fmt"

	bolt "go.etcd.io/bbolt"
	berrors "go.etcd.io/bbolt/errors"
	"go.etcd.io/bbolt/zverif/boltfmt"
	"go.etcd.io/bbolt/zverif/refmodel"
)

var errTable = []struct {
	e error
	n string
}{
	{berrors.ErrTxClosed, "ErrTxClosed"},
	{berrors.ErrTxNotWritable, "ErrTxNotWritable"},
	{berrors.ErrBucketNameRequired, "ErrBucketNameRequired"},
	{berrors.ErrBucketExists, "ErrBucketExists"},
	{berrors.ErrBucketNotFound, "ErrBucketNotFound"},
	{berrors.ErrIncompatibleValue, "ErrIncompatibleValue"},
	{berrors.ErrKeyRequired, "ErrKeyRequired"},
	{berrors.ErrKeyTooLarge, "ErrKeyTooLarge"},
	{berrors.ErrValueTooLarge, "ErrValueTooLarge"},
	{berrors.ErrSameBuckets, "ErrSameBuckets"},
	{berrors.ErrDatabaseReadOnly, "ErrDatabaseReadOnly"},
	{berrors.ErrDatabaseNotOpen, "ErrDatabaseNotOpen"},
	{berrors.ErrMaxSizeReached, "ErrMaxSizeReached"},
	{berrors.ErrInvalidMapping, "ErrInvalidMapping"},
	{berrors.ErrDifferentDB, "ErrDifferentDB"},
	{berrors.ErrTimeout, "ErrTimeout"},
	{berrors.ErrInvalid, "ErrInvalid"},
	{berrors.ErrVersionMismatch, "ErrVersionMismatch"},
	{berrors.ErrChecksum, "ErrChecksum"},
	{berrors.ErrFreePagesNotLoaded, "ErrFreePagesNotLoaded"},
}

// ErrName maps an error to its documented name ("" for nil).
func ErrName(err error) string {
	if err == nil {
		return ""
	}
	for _, t := range errTable {
		if errors.Is(err, t.e) {
			return t.n
		}
	}
	var inj *InjectedError
	if errors.As(err, &inj) {
		return "Injected"
	}
	return "other:" + err.Error()
}

// InjectedError is the error value used by fault injection.
type InjectedError struct{ What string }

func (e *InjectedError) Error() string { return "injected fault: " + e.What }

// DumpOpts selects how thoroughly a transaction is dumped.
type DumpOpts struct {
	Backward bool // also walk every bucket with Last/Prev and compare
	Gets     bool // also Get / Bucket() every key
}

// DumpTx reads everything reachable through tx using the public API and returns it as a model tree.
// Any internal inconsistency of the API (cursor vs ForEach vs Get) is returned as an error.
func DumpTx(tx *bolt.Tx, o DumpOpts) (*refmodel.Node, error) {
	root := refmodel.New()
	var names [][]byte
	err := tx.ForEach(func(name []byte, b *bolt.Bucket) error {
		if b == nil {
			return fmt.Errorf("root: ForEach yielded nil bucket for %q", name)
		}
		names = append(names, append([]byte{}, name...))
		if tb := tx.Bucket(name); tb == nil {
			return fmt.Errorf("root: Tx.Bucket(%q) is nil for a name ForEach yields", name)
		}
		sub, err := dumpBucket(b, "/"+string(name), o)
		if err != nil {
			return err
		}
		root.Ent[string(name)] = &refmodel.Ent{Sub: sub}
		return nil
	})
	if err != nil {
		return nil, err
	}
	for i := 1; i < len(names); i++ {
		if bytes.Compare(names[i-1], names[i]) >= 0 {
			return nil, fmt.Errorf("root: bucket names not ascending")
		}
	}
	// the root cursor must agree
	c := tx.Cursor()
	i := 0
	for k, v := c.First(); k != nil; k, v = c.Next() {
		if v != nil {
			return nil, fmt.Errorf("root cursor: non-nil value for %q", k)
		}
		if i >= len(names) || !bytes.Equal(names[i], k) {
			return nil, fmt.Errorf("root cursor: key %d differs from ForEach", i)
		}
		i++
	}
	if i != len(names) {
		return nil, fmt.Errorf("root cursor: %d keys, ForEach %d", i, len(names))
	}
	return root, nil
}

func dumpBucket(b *bolt.Bucket, path string, o DumpOpts) (*refmodel.Node, error) {
	n := refmodel.New()
	n.Seq = b.Sequence()
	type kv struct {
		k, v []byte
	}
	var items []kv
	err := b.ForEach(func(k, v []byte) error {
		items = append(items, kv{append([]byte{}, k...), v})
		return nil
	})
	if err != nil {
		return nil, fmt.Errorf("%s: ForEach: %v", path, err)
	}
	for i, it := range items {
		if i > 0 && bytes.Compare(items[i-1].k, it.k) >= 0 {
			return nil, fmt.Errorf("%s: keys not strictly ascending at %d (%q, %q)", path, i, items[i-1].k, it.k)
		}
		if it.v == nil {
			cb := b.Bucket(it.k)
			if cb == nil {
				return nil, fmt.Errorf("%s: key %q has nil value but Bucket() is nil", path, it.k)
			}
			if o.Gets && b.Get(it.k) != nil {
				return nil, fmt.Errorf("%s: Get of bucket key %q not nil", path, it.k)
			}
			sub, err := dumpBucket(cb, path+"/"+string(it.k), o)
			if err != nil {
				return nil, err
			}
			n.Ent[string(it.k)] = &refmodel.Ent{Sub: sub}
		} else {
			if o.Gets {
				if g := b.Get(it.k); g == nil || !bytes.Equal(g, it.v) {
					return nil, fmt.Errorf("%s: Get(%q) differs from ForEach value", path, it.k)
				}
				if b.Bucket(it.k) != nil {
					return nil, fmt.Errorf("%s: Bucket(%q) non-nil for plain key", path, it.k)
				}
			}
			n.Ent[string(it.k)] = &refmodel.Ent{Val: append([]byte{}, it.v...)}
		}
	}
	// ForEachBucket must yield exactly the nested-bucket keys, in the same order
	var subs [][]byte
	if err := b.ForEachBucket(func(k []byte) error { subs = append(subs, append([]byte{}, k...)); return nil }); err != nil {
		return nil, fmt.Errorf("%s: ForEachBucket: %v", path, err)
	}
	j := 0
	for _, it := range items {
		if it.v != nil {
			continue
		}
		if j >= len(subs) || !bytes.Equal(subs[j], it.k) {
			return nil, fmt.Errorf("%s: ForEachBucket differs from ForEach at nested bucket %q", path, it.k)
		}
		j++
	}
	if j != len(subs) {
		return nil, fmt.Errorf("%s: ForEachBucket yields %d names, ForEach %d nested buckets", path, len(subs), j)
	}
	if o.Backward {
		c := b.Cursor()
		i := len(items) - 1
		for k, v := c.Last(); k != nil; k, v = c.Prev() {
			if i < 0 {
				return nil, fmt.Errorf("%s: backward scan yields more keys than forward (%d)", path, len(items))
			}
			if !bytes.Equal(k, items[i].k) {
				return nil, fmt.Errorf("%s: backward scan key %q, forward had %q", path, k, items[i].k)
			}
			if (v == nil) != (items[i].v == nil) || !bytes.Equal(v, items[i].v) {
				return nil, fmt.Errorf("%s: backward scan value differs at %q", path, k)
			}
			i--
		}
		if i != -1 {
			return nil, fmt.Errorf("%s: backward scan stopped early, %d of %d keys missing", path, i+1, len(items))
		}
	}
	return n, nil
}

// FromFmt converts a decoded on-disk bucket to a model tree.
func FromFmt(b *boltfmt.Bucket) (*refmodel.Node, error) {
	n := refmodel.New()
	n.Seq = b.Seq
	for _, it := range b.Items {
		k := string(it.Key)
		if _, dup := n.Ent[k]; dup {
			return nil, fmt.Errorf("duplicate key %q in decoded bucket", k)
		}
		if it.Sub != nil {
			s, err := FromFmt(it.Sub)
			if err != nil {
				return nil, err
			}
			n.Ent[k] = &refmodel.Ent{Sub: s}
		} else {
			n.Ent[k] = &refmodel.Ent{Val: it.Val}
		}
	}
	return n, nil
}
