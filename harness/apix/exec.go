// Package apix executes operations against the real database and the reference model side by side.
package apix

import (
	"bytes"
	"encoding/json"
	"fmt"
	"os"
	"path/filepath"
	"runtime/debug"
	"strings"

	bolt "go.etcd.io/bbolt"
	"go.etcd.io/bbolt/zverif/boltfmt"
	"go.etcd.io/bbolt/zverif/refmodel"
)

// Cfg is a database configuration (options of one Open).
type Cfg struct {
	PageSize        int     `json:"ps,omitempty"`
	Freelist        string  `json:"fl,omitempty"` // "array" (default) or "hashmap"
	NoFreelistSync  bool    `json:"nfs,omitempty"`
	NoGrowSync      bool    `json:"ngs,omitempty"`
	InitialMmapSize int     `json:"imm,omitempty"`
	MaxSize         int     `json:"max,omitempty"`
	AllocSize       int     `json:"alloc,omitempty"`
	Mlock           bool    `json:"mlock,omitempty"`
	StrictMode      bool    `json:"strict,omitempty"`
	PreLoad         bool    `json:"preload,omitempty"`
	ReadOnly        bool    `json:"ro,omitempty"`
	FillPercent     float64 `json:"fill,omitempty"`
	PageSizeOpt     int     `json:"psopt,omitempty"` // Options.PageSize given at a reopen (0: the real one)
	NoStats         bool    `json:"nostats,omitempty"`
}

func (c Cfg) String() string {
	b, _ := json.Marshal(c)
	return string(b)
}

func (c Cfg) Options() *bolt.Options {
	o := &bolt.Options{
		NoFreelistSync:  c.NoFreelistSync,
		NoGrowSync:      c.NoGrowSync,
		InitialMmapSize: c.InitialMmapSize,
		MaxSize:         c.MaxSize,
		Mlock:           c.Mlock,
		PreLoadFreelist: c.PreLoad,
		ReadOnly:        c.ReadOnly,
		PageSize:        c.PageSize,
		NoStatistics:    c.NoStats,
		FreelistType:    bolt.FreelistArrayType,
	}
	if c.Freelist == "hashmap" {
		o.FreelistType = bolt.FreelistMapType
	}
	if c.PageSizeOpt != 0 {
		o.PageSize = c.PageSizeOpt
	}
	return o
}

// Op is one operation of a program.
type Op struct {
	K   string   `json:"k"`
	P   []string `json:"p,omitempty"`   // bucket path (empty = root)
	Key string   `json:"key,omitempty"` // key / bucket name (symbolic, see KeyBytes)
	V   string   `json:"v,omitempty"`   // value class: e s M X
	N   int      `json:"n,omitempty"`   // reader index / count / sequence value
	D   []string `json:"d,omitempty"`   // destination path of mvb
	Cfg *Cfg     `json:"cfg,omitempty"` // reopen
}

func (o Op) String() string {
	s := o.K
	if len(o.P) > 0 || o.K == "mkb" || o.K == "delb" || o.K == "mvb" || o.K == "mkbi" {
		s += " /" + strings.Join(o.P, "/")
	}
	if o.Key != "" {
		s += " " + o.Key
	}
	if o.V != "" {
		s += "=" + o.V
	}
	if o.N != 0 {
		s += fmt.Sprintf(" #%d", o.N)
	}
	if o.D != nil {
		s += " -> /" + strings.Join(o.D, "/")
	}
	if o.Cfg != nil {
		s += " " + o.Cfg.String()
	}
	return s
}

// ProgString renders a program.
func ProgString(p []Op) string {
	var sb []string
	for _, o := range p {
		sb = append(sb, o.String())
	}
	return strings.Join(sb, "; ")
}

// Fail describes why an execution stopped.
type Fail struct {
	Kind string // mismatch | panic | error
	At   int    // op index (-1 unknown)
	Op   string
	Msg  string
}

func (f *Fail) Error() string { return fmt.Sprintf("%s at op %d (%s): %s", f.Kind, f.At, f.Op, f.Msg) }

// Reader is an open read transaction with the model version it must see.
type Reader struct {
	Tx *bolt.Tx
	M  *refmodel.Node
	ID uint64
}

// Exec runs operations on the real database and on the model.
type Exec struct {
	Path string
	Cfg  Cfg
	DB   *bolt.DB

	Committed   *refmodel.Node
	CommittedID uint64
	W           *bolt.Tx
	WM          *refmodel.Node
	WDirty      map[*refmodel.Node]bool // buckets created or edited in the current write tx (known-finding predicates)
	Readers     [4]*Reader
	Dead        *bolt.Tx // most recently closed write tx (for closed-tx error ops)

	Stamp    int
	NOps     int
	CheckLvl int // 0: none, 1: at tx boundaries, 2: after every op inside a write tx as well
	Backward bool
	Poisoned bool
	Notes    []string // known-finding predicates that became true ("F4", ...)
	Sticky   []string

	// OnBoundary is called after commit, rollback, failed commit and reopen with the kind of boundary.
	OnBoundary func(x *Exec, kind string) *Fail

	Mon *Monitor
	Tap *Tap
	// crash/fault enumeration support
	PrevCommitted *refmodel.Node // model before the most recent successful commit
	PreImage      []byte         // file content when the current/most recent write tx began (if KeepPre)
	KeepPre       bool
	TxLogStart    int // index into Tap.Log where the current/most recent write tx began
	Fault         *Fault
	LastFault     string
	Probe         []bolt.VerifOp
	probing       bool
	Unmapped      bool // a failed mmap left the database unmapped (until reopen)
	Consumed      bool
	LastKind      string // kind of the most recent boundary
	opening       bool

	keep [][]byte // values handed to Put stay alive and untouched
}

// KeyBytes expands a symbolic key: names starting with 'L' are padded to pageSize/3 bytes.
func (x *Exec) KeyBytes(name string) []byte {
	if strings.HasPrefix(name, "L") {
		n := x.pageSize() / 3
		if n > len(name) {
			return []byte(name + strings.Repeat("_", n-len(name)))
		}
	}
	if strings.HasPrefix(name, "G") && len(name) > 1 {
		// giant key, 0.7 page: two of them do not fit a page, so leaf AND branch pages holding them have overflow pages
		n := x.pageSize() * 7 / 10
		if n > len(name) {
			return []byte(name + strings.Repeat("_", n-len(name)))
		}
	}
	if strings.HasPrefix(name, "W") && len(name) > 1 {
		// wide key, 2.2 pages (at most the maximal key size): a single element needs overflow pages, in leaf and branch pages
		n := x.pageSize() * 22 / 10
		if n > refmodel.MaxKeySize {
			n = refmodel.MaxKeySize
		}
		if n > len(name) {
			return []byte(name + strings.Repeat("_", n-len(name)))
		}
	}
	if strings.HasPrefix(name, "HUGE") { // 32769 bytes: too large
		return bytes.Repeat([]byte("H"), refmodel.MaxKeySize+1)
	}
	if strings.HasPrefix(name, "MAXK") { // exactly the limit
		return bytes.Repeat([]byte("H"), refmodel.MaxKeySize)
	}
	if name == "EMPTY" {
		return []byte{}
	}
	return []byte(name)
}

func (x *Exec) pageSize() int {
	if x.Cfg.PageSize != 0 {
		return x.Cfg.PageSize
	}
	return os.Getpagesize()
}

// ValBytes builds a value of the given class carrying a unique stamp.
func (x *Exec) ValBytes(class string) []byte {
	x.Stamp++
	st := fmt.Sprintf("%s%07d", class, x.Stamp)
	var n int
	switch class {
	case "e":
		return []byte{}
	case "s":
		return []byte(st)
	case "M":
		n = x.pageSize() * 3 / 10
	case "X":
		n = x.pageSize() * 5 / 2
	case "Y":
		n = x.pageSize()*5 + 17
	default:
		panic("unknown value class " + class)
	}
	b := make([]byte, 0, n+8)
	for len(b) < n {
		b = append(b, st...)
	}
	return b[:n]
}

// NewExec opens (creating if needed) the database at path with cfg. model is the expected committed content
// (nil = empty database).
func NewExec(path string, cfg Cfg, model *refmodel.Node) (*Exec, *Fail) {
	x := &Exec{Path: path, Cfg: cfg, CheckLvl: 1, Backward: true, Tap: &Tap{}}
	x.Tap.OnIO = append(x.Tap.OnIO, x.faultHandler)
	SetTap(x.Tap)
	if model == nil {
		model = refmodel.New()
	}
	x.Committed = model
	if f := x.open(cfg); f != nil {
		return nil, f
	}
	return x, nil
}

func (x *Exec) open(cfg Cfg) (f *Fail) {
	defer func() {
		if r := recover(); r != nil {
			x.Poisoned = true
			f = &Fail{Kind: "panic", At: x.NOps, Op: "open", Msg: fmt.Sprintf("%v\n%s", r, trimStack(debug.Stack()))}
		}
	}()
	x.opening = true
	db, err := bolt.Open(x.Path, 0600, cfg.Options())
	x.opening = false
	if err != nil {
		return &Fail{Kind: "error", At: x.NOps, Op: "open", Msg: "open: " + ErrName(err)}
	}
	if cfg.AllocSize != 0 {
		db.AllocSize = cfg.AllocSize
	} else if cfg.InitialMmapSize > 64<<10 && cfg.MaxSize == 0 {
		// With a large initial map and the default AllocSize (16 MiB) the first growth extends the data file to the
		// whole map size; the explorations hash and decode the file after every step, so keep it small.
		db.AllocSize = 16 << 10
	}
	db.StrictMode = cfg.StrictMode
	x.DB = db
	x.Cfg = cfg
	x.Cfg.PageSize = bolt.VerifPageSize(db)
	x.Cfg.PageSizeOpt = 0
	id, err := x.fileTxid()
	if err != nil {
		return &Fail{Kind: "mismatch", At: x.NOps, Op: "open", Msg: err.Error()}
	}
	x.CommittedID = id
	return nil
}

// fileTxid reads the winning meta's txid with the independent decoder.
func (x *Exec) fileTxid() (uint64, error) {
	data, err := os.ReadFile(x.Path)
	if err != nil {
		return 0, err
	}
	im, err := boltfmt.Load(data, x.Cfg.PageSize)
	if err != nil {
		return 0, err
	}
	w := im.Winner()
	if w == nil {
		return 0, fmt.Errorf("no valid meta in file after open")
	}
	return w.Txid, nil
}

func trimStack(b []byte) string {
	lines := strings.Split(string(b), "\n")
	var out []string
	for _, l := range lines {
		if strings.Contains(l, "go.etcd.io/bbolt") && !strings.Contains(l, "zverif") {
			out = append(out, strings.TrimSpace(l))
		}
		if len(out) >= 8 {
			break
		}
	}
	return strings.Join(out, " | ")
}

// coherent compares the mirror mapping with the real file (a stray store into the mapping, or a harness bug, shows here).
func (x *Exec) Coherent() *Fail {
	if x.DB == nil || x.Poisoned {
		return nil
	}
	file, err := os.ReadFile(x.Path)
	if err != nil {
		return nil
	}
	if err := MirrorCoherent(x.DB, file); err != nil {
		return &Fail{Kind: "mismatch", At: -1, Msg: "memory mapping and data file differ: " + err.Error()}
	}
	return nil
}

// Close ends all transactions and closes the database (best effort).
func (x *Exec) Close() {
	if x.Poisoned || x.DB == nil {
		return
	}
	defer func() { _ = recover() }()
	for i, r := range x.Readers {
		if r != nil {
			_ = r.Tx.Rollback()
			x.Readers[i] = nil
		}
	}
	if x.W != nil {
		_ = x.W.Rollback()
		x.W = nil
	}
	_ = x.DB.Close()
	x.DB = nil
}

func (x *Exec) resolve(tx *bolt.Tx, path []string) *bolt.Bucket {
	if len(path) == 0 {
		return nil
	}
	b := tx.Bucket(x.KeyBytes(path[0]))
	for _, p := range path[1:] {
		if b == nil {
			return nil
		}
		b = b.Bucket(x.KeyBytes(p))
	}
	if b != nil && x.Cfg.FillPercent != 0 {
		b.FillPercent = x.Cfg.FillPercent
	}
	return b
}

func (x *Exec) mresolve(root *refmodel.Node, path []string) *refmodel.Node {
	var kp []string
	for _, p := range path {
		kp = append(kp, string(x.KeyBytes(p)))
	}
	return root.Resolve(kp)
}

func scratch(b []byte) {
	for i := range b {
		b[i] = 0xEE
	}
}

// Do executes one operation. A nil result means the real code and the model agreed.
func (x *Exec) Do(op Op) (f *Fail) {
	idx := x.NOps
	x.NOps++
	defer func() {
		if r := recover(); r != nil {
			x.Poisoned = true
			f = &Fail{Kind: "panic", At: idx, Op: op.String(), Msg: fmt.Sprintf("%v | %s", r, trimStack(debug.Stack()))}
		}
		if (f == nil || f.Kind == "error") && x.Mon != nil && x.Mon.Fail != nil {
			f = x.Mon.Fail
		}
		if f != nil && f.At < 0 {
			f.At = idx
		}
		if f != nil && f.Op == "" {
			f.Op = op.String()
		}
	}()
	mm := func(format string, a ...interface{}) *Fail {
		return &Fail{Kind: "mismatch", At: idx, Op: op.String(), Msg: fmt.Sprintf(format, a...)}
	}
	cmpErr := func(real error, model error) *Fail {
		rn, mn := ErrName(real), ""
		if model != nil {
			mn = model.Error()
		}
		if rn != mn {
			return mm("error %q, model says %q", rn, mn)
		}
		return nil
	}
	switch op.K {
	case "beginW":
		if x.W != nil {
			return mm("harness: write tx already open")
		}
		if x.KeepPre {
			x.PreImage = x.FileBytes()
		}
		x.TxLogStart = len(x.Tap.Log)
		tx, err := x.DB.Begin(true)
		if x.Cfg.ReadOnly {
			if ErrName(err) != "ErrDatabaseReadOnly" {
				return mm("Begin(true) on read-only db: %v", err)
			}
			return nil
		}
		if err != nil {
			return mm("Begin(true): %v", err)
		}
		x.W, x.WM = tx, x.Committed.Clone()
		x.WDirty = map[*refmodel.Node]bool{}
		x.Notes = nil
		if uint64(tx.ID()) != x.CommittedID+1 {
			return mm("writer id %d, expected %d", tx.ID(), x.CommittedID+1)
		}
		if !tx.Writable() {
			return mm("Writable() false on write tx")
		}
		if x.Mon != nil {
			return x.Mon.AfterBegin()
		}
		return nil
	case "commit":
		if x.W == nil {
			return mm("harness: no write tx")
		}
		tx := x.W
		err := tx.Commit()
		x.W, x.Dead = nil, tx
		if err != nil {
			// implementation-only failure (I/O, size limit): model unchanged
			x.WM = nil
			if x.OnBoundary != nil {
				if f := x.OnBoundary(x, "commit-failed:"+ErrName(err)); f != nil {
					return f
				}
			}
			return &Fail{Kind: "error", At: idx, Op: op.String(), Msg: "commit: " + ErrName(err)}
		}
		var prev map[uint64]bool
		if x.Mon != nil {
			prev = x.Mon.PageSets[x.CommittedID]
		}
		x.PrevCommitted = x.Committed
		x.Committed, x.WM = x.WM, nil
		x.CommittedID++
		if x.Mon != nil {
			if f := x.Mon.snapshot("after commit"); f != nil {
				return f
			}
			if f := x.Mon.AfterCommit(prev); f != nil {
				return f
			}
		}
		return x.boundary("commit")
	case "commitF":
		return x.commitWithFault(op, idx)
	case "rollback":
		if x.W == nil {
			return mm("harness: no write tx")
		}
		tx := x.W
		err := tx.Rollback()
		x.W, x.WM, x.Dead = nil, nil, tx
		if err != nil {
			return mm("Rollback: %v", err)
		}
		return x.boundary("rollback")
	case "beginR":
		if x.Readers[op.N] != nil {
			return mm("harness: reader %d open", op.N)
		}
		tx, err := x.DB.Begin(false)
		if err != nil {
			return mm("Begin(false): %v", err)
		}
		x.Readers[op.N] = &Reader{Tx: tx, M: x.Committed, ID: x.CommittedID}
		if uint64(tx.ID()) != x.CommittedID {
			return mm("reader id %d, expected %d", tx.ID(), x.CommittedID)
		}
		return x.checkReader(op.N)
	case "closeR":
		r := x.Readers[op.N]
		if r == nil {
			return mm("harness: reader %d not open", op.N)
		}
		if f := x.checkReader(op.N); f != nil {
			return f
		}
		x.Readers[op.N] = nil
		if err := r.Tx.Rollback(); err != nil {
			return mm("reader Rollback: %v", err)
		}
		return nil
	case "checkR":
		return x.checkReader(op.N)
	case "backup", "copyfile":
		return x.backup(op, idx)
	case "reopen":
		for _, r := range x.Readers {
			if r != nil {
				return mm("harness: reopen with open reader")
			}
		}
		if x.W != nil {
			return mm("harness: reopen with open writer")
		}
		if f := x.Coherent(); f != nil {
			return f
		}
		if err := x.DB.Close(); err != nil {
			return mm("Close: %v", err)
		}
		x.DB = nil
		if x.KeepPre {
			x.PreImage = x.FileBytes()
		}
		x.TxLogStart = len(x.Tap.Log)
		cfg := x.Cfg
		if op.Cfg != nil {
			ps := x.Cfg.PageSize
			cfg = *op.Cfg
			cfg.PageSize = ps
		}
		before := x.CommittedID
		if f := x.open(cfg); f != nil {
			return f
		}
		x.Unmapped = false
		if x.CommittedID < before || x.CommittedID > before+1 {
			return mm("txid after reopen %d, before %d", x.CommittedID, before)
		}
		if x.Mon != nil {
			if f := x.Mon.snapshot("after reopen"); f != nil {
				return f
			}
		}
		return x.boundary("reopen")
	}

	switch op.K {
	case "rput", "rdel", "rmkb", "rdelb", "rseq":
		// write attempts through a read transaction: documented ErrTxNotWritable, nothing changes
		r := x.Readers[op.N]
		if r == nil {
			return mm("harness: reader %d not open", op.N)
		}
		var err error
		b := x.resolve(r.Tx, op.P)
		switch {
		case op.K == "rmkb":
			_, err = r.Tx.CreateBucket(x.KeyBytes(op.Key))
		case op.K == "rdelb":
			err = r.Tx.DeleteBucket(x.KeyBytes(op.Key))
		case b == nil:
			return nil
		case op.K == "rput":
			err = b.Put(x.KeyBytes(op.Key), []byte("v"))
		case op.K == "rdel":
			err = b.Delete(x.KeyBytes(op.Key))
		case op.K == "rseq":
			_, err = b.NextSequence()
		}
		if ErrName(err) != "ErrTxNotWritable" {
			return mm("%s through a read transaction returned %q, want ErrTxNotWritable", op.K, ErrName(err))
		}
		return x.checkReader(op.N)
	case "deadput", "deadmkb", "deadcommit", "deadrollback":
		// operations on the most recently closed write transaction: documented ErrTxClosed
		if x.Dead == nil {
			return nil
		}
		var err error
		switch op.K {
		case "deadmkb":
			_, err = x.Dead.CreateBucket([]byte("zz"))
		case "deadcommit":
			err = x.Dead.Commit()
		case "deadrollback":
			err = x.Dead.Rollback()
		case "deadput":
			_, err = x.Dead.CreateBucketIfNotExists([]byte("zz"))
		}
		if ErrName(err) != "ErrTxClosed" {
			return mm("%s on a closed transaction returned %q, want ErrTxClosed", op.K, ErrName(err))
		}
		return nil
	}

	// ---- operations inside the write transaction ----
	if x.W == nil {
		return mm("harness: op %s needs a write tx", op.K)
	}
	tx, m := x.W, x.WM
	key := x.KeyBytes(op.Key)
	skey := string(key)
	var rb *bolt.Bucket
	var mb *refmodel.Node
	if len(op.P) > 0 {
		rb = x.resolve(tx, op.P)
		mb = x.mresolve(m, op.P)
		if (rb == nil) != (mb == nil) {
			return mm("bucket path resolves to nil=%v, model nil=%v", rb == nil, mb == nil)
		}
		if rb == nil {
			return nil // no such bucket on either side: nothing to do
		}
	} else {
		mb = m
	}
	switch op.K {
	case "put":
		if rb == nil {
			return mm("harness: put at root")
		}
		v := x.ValBytes(op.V)
		x.keep = append(x.keep, v)
		kb := append([]byte{}, key...)
		err := rb.Put(kb, v)
		scratch(kb)
		merr := mb.Put(skey, v)
		if merr == nil {
			x.WDirty[mb] = true
		}
		if f := cmpErr(err, merr); f != nil {
			return f
		}
	case "del":
		if rb == nil {
			return mm("harness: del at root")
		}
		kb := append([]byte{}, key...)
		err := rb.Delete(kb)
		scratch(kb)
		_, existed := mb.Ent[skey]
		merr := mb.Delete(skey)
		if merr == nil && existed {
			x.WDirty[mb] = true
		}
		if f := cmpErr(err, merr); f != nil {
			return f
		}
	case "cdel":
		// Cursor.Seek + Cursor.Delete: deletes the smallest key >= Key if it is a plain key
		if rb == nil {
			return mm("harness: cdel at root")
		}
		c := rb.Cursor()
		k, _ := c.Seek(key)
		mc := mb.Cursor()
		mk, me, ok := mc.Seek(skey)
		if (k == nil) == ok || (ok && string(k) != mk) {
			return mm("Cursor.Seek(%q) landed on %q, model on %q (found=%v)", short(key), short(k), mk, ok)
		}
		if !ok {
			return nil
		}
		err := c.Delete()
		var merr error
		if me.Sub != nil {
			merr = refmodel.ErrIncompatibleValue
		} else {
			_ = mb.Delete(mk)
			x.WDirty[mb] = true
		}
		if f := cmpErr(err, merr); f != nil {
			return f
		}
	case "get":
		if rb == nil {
			return mm("harness: get at root")
		}
		got := rb.Get(key)
		want := mb.Get(skey)
		if (got == nil) != (want == nil) || !bytes.Equal(got, want) {
			return mm("Get: got %s want %s", short(got), short(want))
		}
		return nil
	case "mkb", "mkbi":
		kb := append([]byte{}, key...)
		var nb *bolt.Bucket
		var err error
		if op.K == "mkb" {
			if rb == nil {
				nb, err = tx.CreateBucket(kb)
			} else {
				nb, err = rb.CreateBucket(kb)
			}
		} else {
			if rb == nil {
				nb, err = tx.CreateBucketIfNotExists(kb)
			} else {
				nb, err = rb.CreateBucketIfNotExists(kb)
			}
		}
		scratch(kb)
		var mn *refmodel.Node
		var merr error
		_, existed := mb.Ent[skey]
		if op.K == "mkb" {
			mn, merr = mb.CreateBucket(skey)
		} else {
			mn, merr = mb.CreateBucketIfNotExists(skey)
		}
		if merr == nil && !existed {
			x.WDirty[mb] = true
			x.WDirty[mn] = true
		}
		if f := cmpErr(err, merr); f != nil {
			return f
		}
		if (nb == nil) != (mn == nil) {
			return mm("returned bucket nil=%v, model nil=%v", nb == nil, mn == nil)
		}
	case "delb":
		kb := append([]byte{}, key...)
		var err error
		if rb == nil {
			err = tx.DeleteBucket(kb)
		} else {
			err = rb.DeleteBucket(kb)
		}
		scratch(kb)
		if e := mb.Ent[skey]; e != nil && e.Sub != nil && x.WDirty[e.Sub] && len(subBuckets(e.Sub)) > 0 {
			x.note("F3")
		}
		merr := mb.DeleteBucket(skey)
		if merr == nil {
			x.WDirty[mb] = true
		}
		if f := cmpErr(err, merr); f != nil {
			return f
		}
	case "mvb":
		var rdst *bolt.Bucket
		mdst := m
		if len(op.D) > 0 {
			rdst = x.resolve(tx, op.D)
			mdst = x.mresolve(m, op.D)
			if (rdst == nil) != (mdst == nil) {
				return mm("destination resolves to nil=%v, model nil=%v", rdst == nil, mdst == nil)
			}
			if rdst == nil {
				return nil
			}
		}
		if e := mb.Ent[skey]; e != nil && e.Sub != nil {
			if x.dirtyBelow(e.Sub) {
				x.note("F4")
			}
			if e.Sub.Contains(mdst) {
				x.note("F5")
			}
		}
		kb := append([]byte{}, key...)
		err := tx.MoveBucket(kb, rb, rdst)
		scratch(kb)
		merr := mb.MoveBucket(skey, mdst)
		if merr == nil {
			x.WDirty[mb] = true
			x.WDirty[mdst] = true
		}
		if f := cmpErr(err, merr); f != nil {
			return f
		}
	case "seqset":
		if rb == nil {
			return mm("harness: seqset at root")
		}
		err := rb.SetSequence(uint64(op.N))
		if err != nil {
			return mm("SetSequence: %v", err)
		}
		mb.Seq = uint64(op.N)
		x.WDirty[mb] = true
	case "seqnext":
		if rb == nil {
			return mm("harness: seqnext at root")
		}
		v, err := rb.NextSequence()
		if err != nil {
			return mm("NextSequence: %v", err)
		}
		mb.Seq++
		x.WDirty[mb] = true
		if v != mb.Seq {
			return mm("NextSequence returned %d, model %d", v, mb.Seq)
		}
	case "seqget":
		if rb == nil {
			return mm("harness: seqget at root")
		}
		if v := rb.Sequence(); v != mb.Seq {
			return mm("Sequence returned %d, model %d", v, mb.Seq)
		}
		return nil
	case "fill":
		if rb == nil {
			return mm("harness: fill at root")
		}
		for i := 0; i < op.N; i++ {
			k := fmt.Sprintf("%s%03d", op.Key, i)
			v := x.ValBytes(op.V)
			x.keep = append(x.keep, v)
			kb := x.KeyBytes(k)
			err := rb.Put(kb, v)
			merr := mb.Put(string(kb), v)
			if f := cmpErr(err, merr); f != nil {
				return f
			}
		}
		x.WDirty[mb] = true
	case "thin":
		// delete every plain key whose ordinal is not a multiple of N: all leaves become under-full but stay non-empty
		if rb == nil {
			return mm("harness: thin at root")
		}
		i := 0
		for _, k := range mb.Keys() {
			if mb.Ent[k].Sub != nil {
				continue
			}
			if i%op.N != 0 {
				if err := rb.Delete([]byte(k)); err != nil {
					return mm("Delete during thin: %v", err)
				}
				_ = mb.Delete(k)
				x.WDirty[mb] = true
			}
			i++
		}
	case "drain":
		if rb == nil {
			return mm("harness: drain at root")
		}
		for _, k := range mb.Keys() {
			if mb.Ent[k].Sub != nil {
				continue
			}
			if err := rb.Delete([]byte(k)); err != nil {
				return mm("Delete during drain: %v", err)
			}
			_ = mb.Delete(k)
			x.WDirty[mb] = true
		}
	default:
		return mm("harness: unknown op %q", op.K)
	}
	if x.CheckLvl >= 2 {
		return x.checkTx(x.W, x.WM, "write tx after "+op.K, false)
	}
	return nil
}

func subBuckets(n *refmodel.Node) []string {
	var r []string
	for k, e := range n.Ent {
		if e.Sub != nil {
			r = append(r, k)
		}
	}
	return r
}

func (x *Exec) dirtyBelow(n *refmodel.Node) bool {
	if x.WDirty[n] {
		return true
	}
	for _, e := range n.Ent {
		if e.Sub != nil && x.dirtyBelow(e.Sub) {
			return true
		}
	}
	return false
}

// AllNotes returns the known-finding predicates that hold for this execution: those of the current write
// transaction and the sticky ones (which outlive the transaction that raised them).
func (x *Exec) AllNotes() []string {
	return append(append([]string{}, x.Sticky...), x.Notes...)
}

func (x *Exec) stick(s string) {
	for _, n := range x.Sticky {
		if n == s {
			return
		}
	}
	x.Sticky = append(x.Sticky, s)
}

func (x *Exec) note(s string) {
	for _, n := range x.Notes {
		if n == s {
			return
		}
	}
	x.Notes = append(x.Notes, s)
}

func short(b []byte) string {
	if b == nil {
		return "nil"
	}
	if len(b) <= 12 {
		return fmt.Sprintf("%q", b)
	}
	return fmt.Sprintf("%q..[%d]", b[:8], len(b))
}

// checkTx dumps tx through the API and compares with the model tree.
func (x *Exec) checkTx(tx *bolt.Tx, want *refmodel.Node, what string, backward bool) *Fail {
	got, err := DumpTx(tx, DumpOpts{Backward: backward, Gets: true})
	if err != nil {
		return &Fail{Kind: "mismatch", At: -1, Msg: what + ": " + err.Error()}
	}
	if d := refmodel.Diff(got, want, ""); d != "" {
		return &Fail{Kind: "mismatch", At: -1, Msg: what + ": api(left) vs model(right): " + d}
	}
	return nil
}

func (x *Exec) checkReader(i int) *Fail {
	r := x.Readers[i]
	if r == nil {
		return nil
	}
	if uint64(r.Tx.ID()) != r.ID {
		return &Fail{Kind: "mismatch", At: -1, Msg: fmt.Sprintf("reader %d changed its id to %d", i, r.Tx.ID())}
	}
	return x.checkTx(r.Tx, r.M, fmt.Sprintf("reader %d (version %d)", i, r.ID), x.Backward)
}

// CheckCommitted dumps the committed state through a fresh read transaction and compares it with the model.
func (x *Exec) CheckCommitted(what string) *Fail {
	if x.Cfg.ReadOnly && false {
		return nil
	}
	tx, err := x.DB.Begin(false)
	if err != nil {
		return &Fail{Kind: "mismatch", At: -1, Msg: what + ": Begin(false): " + err.Error()}
	}
	defer func() { _ = tx.Rollback() }()
	if uint64(tx.ID()) != x.CommittedID {
		return &Fail{Kind: "mismatch", At: -1, Msg: fmt.Sprintf("%s: fresh reader id %d, expected %d", what, tx.ID(), x.CommittedID)}
	}
	return x.checkTx(tx, x.Committed, what, x.Backward)
}

// boundary runs the checks due at a transaction boundary.
func (x *Exec) boundary(kind string) *Fail {
	x.LastKind = kind
	if x.CheckLvl >= 1 {
		if f := x.CheckCommitted("after " + kind); f != nil {
			return f
		}
		for i := range x.Readers {
			if f := x.checkReader(i); f != nil {
				return f
			}
		}
	}
	if x.OnBoundary != nil {
		return x.OnBoundary(x, kind)
	}
	return nil
}

// Run executes a whole program; it stops at the first failure.
func (x *Exec) Run(p []Op) *Fail {
	for _, op := range p {
		if f := x.Do(op); f != nil {
			return f
		}
	}
	return nil
}

// FileBytes returns the current file content.
func (x *Exec) FileBytes() []byte {
	if x.DB != nil && !x.Poisoned {
		if b, ok := MirrorBytes(x.DB); ok {
			return b
		}
	}
	b, err := os.ReadFile(x.Path)
	if err != nil {
		panic(err)
	}
	return b
}

// TempPath returns a fresh file path under dir.
var tempSeq int

func TempPath(dir string) string {
	tempSeq++
	return filepath.Join(dir, fmt.Sprintf("db%d_%d", os.Getpid(), tempSeq))
}
