package apix

import (
	"bytes"
	"fmt"
	"sort"

	bolt "go.etcd.io/bbolt"
	"go.etcd.io/bbolt/internal/common"
	fl "go.etcd.io/bbolt/internal/freelist"
	"go.etcd.io/bbolt/zverif/boltfmt"
)

// Monitor holds the per-version page sets (as decoded when each version was committed) and implements the
// C06 write monitor and the C10 reclamation oracle.
type Monitor struct {
	x        *Exec
	PageSets map[uint64]map[uint64]bool // txid -> pages of that committed state (tree, overflow, freelist)
	HWM      map[uint64]uint64
	Fail     *Fail
	Writes   int // writes checked
	Overlaps int // byte-identical overlaps with protected pages
	C10      bool
	ps       int
	inCommit bool
	// readersAtBegin: number of readers open when the current write transaction began. Pending pages are only
	// released at writer begin, so a reader that was open then legitimately delays the release to the next writer.
	readersAtBegin int
}

// EnableMonitor installs the write monitor on x (call right after NewExec).
func (x *Exec) EnableMonitor(c10 bool) *Monitor {
	m := &Monitor{x: x, PageSets: map[uint64]map[uint64]bool{}, HWM: map[uint64]uint64{}, C10: c10, ps: x.Cfg.PageSize}
	x.Mon = m
	if f := m.snapshot("open"); f != nil {
		m.Fail = f
	}
	x.Tap.OnIO = append(x.Tap.OnIO, m.onIO)
	return m
}

// snapshot decodes the file and records the page set of the committed version.
func (m *Monitor) snapshot(what string) *Fail {
	_, st, err := DecodeBytes(m.x.FileBytes(), m.x.Cfg.PageSize)
	if err != nil {
		return &Fail{Kind: "mismatch", At: -1, Msg: what + ": " + err.Error()}
	}
	set := map[uint64]bool{}
	for _, p := range st.PageSet() {
		set[p] = true
	}
	m.PageSets[st.Meta.Txid] = set
	m.HWM[st.Meta.Txid] = st.Meta.Pgid
	// forget versions nobody can see any more
	for id := range m.PageSets {
		if id == m.x.CommittedID {
			continue
		}
		keep := false
		for _, r := range m.x.Readers {
			if r != nil && r.ID == id {
				keep = true
			}
		}
		if !keep {
			delete(m.PageSets, id)
			delete(m.HWM, id)
		}
	}
	return nil
}

func (m *Monitor) visible() []uint64 {
	ids := []uint64{m.x.CommittedID}
	for _, r := range m.x.Readers {
		if r != nil && r.ID != m.x.CommittedID {
			ids = append(ids, r.ID)
		}
	}
	sort.Slice(ids, func(i, j int) bool { return ids[i] < ids[j] })
	return ids
}

func (m *Monitor) onIO(ev *IOEvent) error {
	if ev.Op != bolt.VerifWrite || m.Fail != nil || (ev.DB != m.x.DB && !m.x.opening) {
		return nil
	}
	m.Writes++
	ps := int64(m.ps)
	first, last := ev.Off/ps, (ev.Off+int64(ev.Len)-1)/ps
	cur := make([]byte, ev.Len)
	n, _ := bolt.VerifFile(ev.DB).ReadAt(cur, ev.Off)
	for i := n; i < len(cur); i++ {
		cur[i] = 0
	}
	for pg := first; pg <= last; pg++ {
		lo := pg*ps - ev.Off
		hi := lo + ps
		if lo < 0 {
			lo = 0
		}
		if hi > int64(ev.Len) {
			hi = int64(ev.Len)
		}
		changed := !bytes.Equal(cur[lo:hi], ev.Data[lo:hi])
		if pg < 2 {
			// meta page: must not be the slot holding the newest committed meta
			if uint64(pg) == m.x.CommittedID%2 {
				if changed {
					m.Fail = &Fail{Kind: "mismatch", At: -1, Msg: fmt.Sprintf("[c06] write at offset %d modifies meta slot %d which holds the newest committed meta (txid %d)", ev.Off, pg, m.x.CommittedID)}
					return nil
				}
				m.Overlaps++
			}
			continue
		}
		for _, id := range m.visible() {
			if m.PageSets[id][uint64(pg)] {
				if changed {
					who := "the newest committed state"
					if id != m.x.CommittedID {
						who = "an open read transaction"
					}
					m.Fail = &Fail{Kind: "mismatch", At: -1, Msg: fmt.Sprintf("[c06] write at offset %d len %d modifies page %d which belongs to committed version %d, still visible to %s", ev.Off, ev.Len, pg, id, who)}
					return nil
				}
				m.Overlaps++
			}
		}
	}
	return nil
}

// FreeVsVisible checks that no allocatable page belongs to a version that is still visible (newest state or an open reader).
func (m *Monitor) FreeVsVisible(when string) *Fail {
	flst := bolt.VerifFreelist(m.x.DB)
	if flst == nil {
		return nil
	}
	d := fl.VerifDump(flst)
	for _, id := range m.visible() {
		for _, f := range d.Free {
			if m.PageSets[id][uint64(f)] {
				return &Fail{Kind: "mismatch", At: -1, Msg: fmt.Sprintf("[reclaim] %s page %d is allocatable but belongs to visible version %d", when, f, id)}
			}
		}
	}
	return nil
}

// AfterBegin is the C10 oracle at writer begin: no page of a version an open reader (or the newest state) needs is free.
func (m *Monitor) AfterBegin() *Fail {
	if !m.C10 {
		return nil
	}
	if f := m.FreeVsVisible("at writer begin"); f != nil {
		return f
	}
	d := fl.VerifDump(bolt.VerifFreelist(m.x.DB))
	readers := 0
	for _, r := range m.x.Readers {
		if r != nil {
			readers++
		}
	}
	m.readersAtBegin = readers
	if readers == 0 {
		n := 0
		for _, l := range d.Pending {
			n += len(l)
		}
		if n > 0 {
			return &Fail{Kind: "mismatch", At: -1, Msg: fmt.Sprintf("[c10] no reader open, yet %d page(s) still pending after the writer began: %v", n, d.Pending)}
		}
	}
	return nil
}

// AfterCommit is the C10 oracle after commit T with no reader open: pending ⊆ pages(T-1) \ pages(T).
func (m *Monitor) AfterCommit(prev map[uint64]bool) *Fail {
	if !m.C10 {
		return nil
	}
	// Pages the commit released (in the previous version, not in the new one) may be reused by the NEXT write
	// transaction at the earliest: when the commit returns they must be withheld, not already allocatable - a
	// reader may have begun on the previous version while the commit was running.
	if flst := bolt.VerifFreelist(m.x.DB); flst != nil {
		cur := m.PageSets[m.x.CommittedID]
		for _, f := range fl.VerifDump(flst).Free {
			if prev[uint64(f)] && !cur[uint64(f)] {
				return &Fail{Kind: "mismatch", At: -1, Msg: fmt.Sprintf("[c10] page %d was released by commit %d and is already allocatable when that commit returns", f, m.x.CommittedID)}
			}
		}
	}
	if m.readersAtBegin > 0 {
		return nil
	}
	for _, r := range m.x.Readers {
		if r != nil {
			return nil
		}
	}
	d := fl.VerifDump(bolt.VerifFreelist(m.x.DB))
	cur := m.PageSets[m.x.CommittedID]
	for tid, l := range d.Pending {
		for _, p := range l {
			if !prev[uint64(p.ID)] || cur[uint64(p.ID)] {
				return &Fail{Kind: "mismatch", At: -1, Msg: fmt.Sprintf("[c10] after commit %d with no reader open, page %d (pending for tx %d) was not released by that commit (in previous version: %v, in new version: %v)",
					m.x.CommittedID, p.ID, tid, prev[uint64(p.ID)], cur[uint64(p.ID)])}
			}
		}
	}
	s := m.x.DB.Stats()
	np := 0
	for _, l := range d.Pending {
		np += len(l)
	}
	if !m.x.Cfg.NoStats && (s.PendingPageN != np || s.FreePageN != len(d.Free)) {
		return &Fail{Kind: "mismatch", At: -1, Msg: fmt.Sprintf("[c10] Stats free/pending %d/%d, allocator holds %d/%d", s.FreePageN, s.PendingPageN, len(d.Free), np)}
	}
	return nil
}

var _ = common.Pgid(0)
var _ = boltfmt.Magic
