// Package evid writes evidence files and replay artefacts.
package evid

import (
	"crypto/sha256"
	"encoding/hex"
	"encoding/json"
	"fmt"
	"os"
	"path/filepath"
	"strconv"
	"time"
)

// Root is the /verif directory.
func Root() string {
	if r := os.Getenv("VERIF_ROOT"); r != "" {
		return r
	}
	return "/verif"
}

// Out is where evidence and replay artefacts are written: Root(), unless VERIF_OUT redirects them (used when a
// deliberately broken tree is being tried, so that the committed evidence is not overwritten).
func Out() string {
	if r := os.Getenv("VERIF_OUT"); r != "" {
		return r
	}
	return Root()
}

// Seed returns VERIF_SEED (0 if unset).
func Seed() int {
	n, _ := strconv.Atoi(os.Getenv("VERIF_SEED"))
	return n
}

// Evidence is one evidence file.
type Evidence struct {
	PropertyID  string                 `json:"property_id"`
	Tier        string                 `json:"tier"`
	Seed        int                    `json:"seed"`
	Level       string                 `json:"level"`
	Coverage    map[string]interface{} `json:"coverage"`
	Assumptions []string               `json:"assumptions"`
	WallS       float64                `json:"wall_s"`
	Violations  int                    `json:"violations"`
}

// Write stores the evidence file for the property.
func (e *Evidence) Write(start time.Time) error {
	e.WallS = time.Since(start).Seconds()
	e.Seed = Seed()
	dir := filepath.Join(Out(), "evidence")
	if err := os.MkdirAll(dir, 0755); err != nil {
		return err
	}
	b, err := json.MarshalIndent(e, "", " ")
	if err != nil {
		return err
	}
	return os.WriteFile(filepath.Join(dir, e.PropertyID+".json"), append(b, '\n'), 0644)
}

// Replay writes a replay artefact and returns its path.
func Replay(prop string, v interface{}) string {
	b, _ := json.MarshalIndent(v, "", " ")
	h := sha256.Sum256(b)
	dir := filepath.Join(Out(), "replays", prop)
	_ = os.MkdirAll(dir, 0755)
	p := filepath.Join(dir, hex.EncodeToString(h[:6])+".json")
	_ = os.WriteFile(p, append(b, '\n'), 0644)
	return p
}

// Violation prints the mandated line.
func Violation(prop, path string) {
	fmt.Printf("VIOLATION property=%s replay=%s\n", prop, path)
}
