package main

import (
	"fmt"
	"os"

	bolt "go.etcd.io/bbolt"
	"go.etcd.io/bbolt/zverif/apix"
)

func main() {
	path := "/dev/shm/vdebug.db"
	os.Remove(path)
	defer os.Remove(path)
	x, f := apix.NewExec(path, apix.Cfg{PageSize: 1024, Freelist: "array"}, nil)
	if f != nil {
		fmt.Println(f)
		return
	}
	P := func(s ...string) []string { return s }
	prog := []apix.Op{{K: "beginW"}, {K: "mkb", Key: "p"}, {K: "fill", P: P("p"), Key: "k", V: "M", N: 9}, {K: "mkb", P: P("p"), Key: "q"}, {K: "fill", P: P("p", "q"), Key: "n", V: "s", N: 6}, {K: "commit"},
		{K: "reopen"},
		{K: "beginW"}, {K: "fill", P: P("p", "q"), Key: "g", V: "X", N: 14}, {K: "mkb", Key: "q"}}
	for _, o := range prog {
		if f := x.Do(o); f != nil {
			fmt.Println("FAIL", f)
			return
		}
	}
	fmt.Println("before commit: datasz", bolt.VerifDataSize(x.DB))
	f = x.Do(apix.Op{K: "commit"})
	fmt.Println("after commit: datasz", bolt.VerifDataSize(x.DB), "fail:", f)
}
