package main

import (
	"fmt"
	"os"
	"runtime/pprof"
	"syscall"
	"time"

	"go.etcd.io/bbolt/zverif/apix"
	_ "go.etcd.io/bbolt/zverif/checks"
	"go.etcd.io/bbolt/zverif/hx"
)

func main() {
	f, _ := os.Create("/tmp/cpu.prof")
	pprof.StartCPUProfile(f)
	defer pprof.StopCPUProfile()
	prog := []apix.Op{{K: "beginW"}, {K: "mkb", P: []string{"p"}, Key: "p"}}
	var ru0, ru1 syscall.Rusage
	syscall.Getrusage(0, &ru0)
	t0 := time.Now()
	n := 0
	for i := 0; i < 30; i++ {
		r := hx.Expand(hx.Job{Scope: "c04-nested", Tier: "quick", Idx: 2, Prog: prog})
		n += len(r.Succ)
		if r.Err != "" {
			fmt.Println(r.Err)
		}
	}
	d := time.Since(t0)
	syscall.Getrusage(0, &ru1)
	fmt.Printf("minflt %d per transition, nvcsw %d nivcsw %d\n", (ru1.Minflt-ru0.Minflt)/int64(n), ru1.Nvcsw-ru0.Nvcsw, ru1.Nivcsw-ru0.Nivcsw)
	fmt.Printf("%d transitions in %v = %v each\n", n, d, d/time.Duration(n))
	hx.CleanWorkDir()
}
