// vcheck is the driver of all checks: `vcheck <property> <quick|thorough>`; `vcheck worker <kind>` is the
// subprocess side.
package main

import (
	"fmt"
	"os"
	"os/signal"
	"runtime/debug"
	"syscall"

	"go.etcd.io/bbolt/zverif/checks"
	"go.etcd.io/bbolt/zverif/hx"
	"go.etcd.io/bbolt/zverif/mc"
)

var table = map[string]func(tier string) int{
	"C01": checks.C01,
	"C02": checks.C02,
	"C03": checks.C03,
	"C04": checks.C04,
	"C05": checks.C05,
	"C06": checks.C06,
	"C07": checks.C07,
	"C08": checks.C08,
	"C09": checks.C09,
	"C10": checks.C10,
	"C11": checks.C11,
	"C12": checks.C12,
	"C13": checks.C13,
	"C14": checks.C14,
	"C15": checks.C15,
	"C16": checks.C16,
	"C17": checks.C17,
	"C18": checks.C18,
	"C19": checks.C19,
	"C20": checks.C20,
}

// runDir is the per-run scratch directory on tmpfs; every worker process creates its files below it (VERIF_TMP),
// and the coordinator removes it when the run ends, also when workers were killed.
var runDir string

func setupRunDir() {
	if os.Getenv("VERIF_WORKER") != "" {
		return
	}
	base := os.Getenv("VERIF_TMP")
	if base == "" {
		base = "/dev/shm"
	}
	d, err := os.MkdirTemp(base, "vfrun")
	if err != nil {
		return
	}
	runDir = d
	os.Setenv("VERIF_TMP", d)
	ch := make(chan os.Signal, 1)
	signal.Notify(ch, syscall.SIGINT, syscall.SIGTERM)
	go func() {
		<-ch
		os.RemoveAll(runDir)
		os.Exit(130)
	}()
}

func exit(code int) {
	hx.CleanWorkDir()
	if runDir != "" {
		os.RemoveAll(runDir)
	}
	os.Exit(code)
}

func main() {
	debug.SetPanicOnFault(true)
	setupRunDir()
	if len(os.Args) < 3 && !(len(os.Args) == 2 && os.Args[1] == "golden") {
		fmt.Fprintln(os.Stderr, "usage: vcheck <property> <quick|thorough> | vcheck worker <kind> | vcheck replay <file>")
		os.Exit(2)
	}
	switch os.Args[1] {
	case "worker":
		switch os.Args[2] {
		case "hx":
			hx.ServeWorker()
		case "mc":
			mc.Serve()
			hx.CleanWorkDir()
		default:
			if f := checks.WorkerKinds[os.Args[2]]; f != nil {
				f()
			} else {
				fmt.Fprintln(os.Stderr, "unknown worker kind")
				os.Exit(2)
			}
		}
		return
	case "golden":
		exit(checks.GoldenWrite())
	case "job":
		f := checks.JobFuncs[os.Args[2]]
		if f == nil {
			fmt.Fprintln(os.Stderr, "unknown job kind")
			os.Exit(2)
		}
		fmt.Println(string(f([]byte(os.Args[3]))))
		exit(0)
	case "replay":
		exit(checks.Replay(os.Args[2]))
	}
	f := table[os.Args[1]]
	if f == nil {
		fmt.Fprintf(os.Stderr, "no check for property %s\n", os.Args[1])
		os.Exit(2)
	}
	tier := os.Args[2]
	if t := os.Getenv("VERIF_TIER"); t != "" && tier == "" {
		tier = t
	}
	exit(f(tier))
}
