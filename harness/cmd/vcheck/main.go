// vcheck is the driver of all checks: `vcheck <property> <quick|thorough>`; `vcheck worker <kind>` is the
// subprocess side.
package main

import (
	"fmt"
	"os"
	"runtime/debug"

	"go.etcd.io/bbolt/zverif/checks"
	"go.etcd.io/bbolt/zverif/hx"
	"go.etcd.io/bbolt/zverif/mc"
)

var table = map[string]func(tier string) int{
	"C01": checks.C01,
	"C02": checks.C02,
	"C03": checks.C03,
	"C04": checks.C04,
	"C05": checks.C05,
	"C06": checks.C06,
	"C07": checks.C07,
	"C08": checks.C08,
	"C09": checks.C09,
	"C10": checks.C10,
	"C11": checks.C11,
	"C12": checks.C12,
	"C13": checks.C13,
	"C14": checks.C14,
	"C15": checks.C15,
	"C16": checks.C16,
	"C17": checks.C17,
	"C18": checks.C18,
	"C19": checks.C19,
	"C20": checks.C20,
}

func main() {
	debug.SetPanicOnFault(true)
	if len(os.Args) < 3 && !(len(os.Args) == 2 && os.Args[1] == "golden") {
		fmt.Fprintln(os.Stderr, "usage: vcheck <property> <quick|thorough> | vcheck worker <kind> | vcheck replay <file>")
		os.Exit(2)
	}
	switch os.Args[1] {
	case "worker":
		switch os.Args[2] {
		case "hx":
			hx.ServeWorker()
		case "mc":
			mc.Serve()
			hx.CleanWorkDir()
		default:
			if f := checks.WorkerKinds[os.Args[2]]; f != nil {
				f()
			} else {
				fmt.Fprintln(os.Stderr, "unknown worker kind")
				os.Exit(2)
			}
		}
		return
	case "golden":
		os.Exit(checks.GoldenWrite())
	case "job":
		f := checks.JobFuncs[os.Args[2]]
		if f == nil {
			fmt.Fprintln(os.Stderr, "unknown job kind")
			os.Exit(2)
		}
		fmt.Println(string(f([]byte(os.Args[3]))))
		hx.CleanWorkDir()
		return
	case "replay":
		os.Exit(checks.Replay(os.Args[2]))
	}
	f := table[os.Args[1]]
	if f == nil {
		fmt.Fprintf(os.Stderr, "no check for property %s\n", os.Args[1])
		os.Exit(2)
	}
	tier := os.Args[2]
	if t := os.Getenv("VERIF_TIER"); t != "" && tier == "" {
		tier = t
	}
	code := f(tier)
	hx.CleanWorkDir()
	os.Exit(code)
}
