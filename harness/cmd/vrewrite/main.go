// vrewrite generates a `go build -overlay` that instruments the CURRENT source of package bbolt and
// internal/freelist: sync -> vsync, time -> vtime, go statements, channel operations and map iteration go
// through the controlled scheduler (DESIGN.md 2.2). Rewrites are purely mechanical text splices on the
// current files, so any source edit in the repository survives unchanged.
//
// usage: vrewrite <repo> <outdir>   (writes <outdir>/overlay.json and <outdir>/report.json)
package main

import (
	"encoding/json"
	"fmt"
	"go/ast"
	"go/build"
	"go/importer"
	"go/parser"
	"go/token"
	"go/types"
	"os"
	"path/filepath"
	"sort"
	"strings"
)

const shimPath = "go.etcd.io/bbolt/zverif/vsync"
const timePath = "go.etcd.io/bbolt/zverif/vtime"
const shim = "vsyncshim"

var syncOK = map[string]bool{"Mutex": true, "RWMutex": true, "Once": true, "Pool": true, "WaitGroup": true}
var timeOK = map[string]bool{"Duration": true, "Time": true, "Month": true, "Timer": true, "Now": true, "Since": true, "Sleep": true, "AfterFunc": true,
	"Nanosecond": true, "Microsecond": true, "Millisecond": true, "Second": true, "Minute": true, "Hour": true}

type edit struct {
	from, to int
	gen      func() string
}

type rw struct {
	fset  *token.FileSet
	src   []byte
	base  int
	edits []edit
	info  *types.Info
	used  bool
	rep   *report
	fname string
}

type report struct {
	Files    []string       `json:"files"`
	Rewrites map[string]int `json:"rewrites"`
	Unowned  []string       `json:"unowned_constructs"`
	Errors   []string       `json:"type_errors,omitempty"`
}

func (r *rw) off(p token.Pos) int { return r.fset.Position(p).Offset }

func (r *rw) text(n ast.Node) string { return r.splice(r.off(n.Pos()), r.off(n.End())) }

// splice renders src[a:b] with every edit inside applied (outermost first, inner ones through gen -> text).
func (r *rw) splice(a, b int) string {
	var in []edit
	for _, e := range r.edits {
		if e.from >= a && e.to <= b && !(e.from == a && e.to == b && false) {
			in = append(in, e)
		}
	}
	sort.SliceStable(in, func(i, j int) bool {
		if in[i].from != in[j].from {
			return in[i].from < in[j].from
		}
		return in[i].to > in[j].to
	})
	var sb strings.Builder
	pos := a
	for _, e := range in {
		if e.from < pos {
			continue // nested in an edit already rendered
		}
		sb.Write(r.src[pos:e.from])
		sb.WriteString(e.gen())
		pos = e.to
	}
	sb.Write(r.src[pos:b])
	return sb.String()
}

// inner renders node n but ignores an edit that covers exactly n itself (used by that edit's generator).
func (r *rw) inner(n ast.Node, parts ...ast.Node) {}

func (r *rw) add(n ast.Node, kind string, gen func() string) {
	r.edits = append(r.edits, edit{r.off(n.Pos()), r.off(n.End()), gen})
	r.rep.Rewrites[kind]++
	r.used = true
}

func (r *rw) typeOf(e ast.Expr) types.Type {
	if r.info == nil {
		return nil
	}
	if tv, ok := r.info.Types[e]; ok {
		return tv.Type
	}
	return nil
}

func orderedKey(t types.Type) bool {
	b, ok := t.Underlying().(*types.Basic)
	if !ok {
		return false
	}
	return b.Info()&(types.IsInteger|types.IsFloat|types.IsString) != 0
}

func (r *rw) walk(f *ast.File) {
	var stack []ast.Node
	skip := map[ast.Node]bool{}
	ast.Inspect(f, func(n ast.Node) bool {
		if n == nil {
			stack = stack[:len(stack)-1]
			return true
		}
		if skip[n] {
			return false
		}
		var parent ast.Node
		if len(stack) > 0 {
			parent = stack[len(stack)-1]
		}
		stack = append(stack, n)
		switch x := n.(type) {
		case *ast.SelectStmt:
			r.rep.Unowned = append(r.rep.Unowned, fmt.Sprintf("%s: select statement left native", r.fset.Position(x.Pos())))
			for _, c := range x.Body.List {
				if cc, ok := c.(*ast.CommClause); ok && cc.Comm != nil {
					skip[cc.Comm] = true
				}
			}
		case *ast.GoStmt:
			call := x.Call
			r.add(x, "go", func() string {
				var sb strings.Builder
				sb.WriteString("{ vsyncF := " + r.text(call.Fun) + "; ")
				var args []string
				for i, a := range call.Args {
					if tv, ok := r.info.Types[a]; r.info != nil && ok && tv.Value != nil {
						args = append(args, r.text(a)) // constant: no evaluation order to preserve
						continue
					}
					nm := fmt.Sprintf("vsyncA%d", i)
					sb.WriteString(nm + " := " + r.text(a) + "; ")
					args = append(args, nm)
				}
				if call.Ellipsis.IsValid() && len(args) > 0 {
					args[len(args)-1] += "..."
				}
				sb.WriteString(shim + ".Go(func() { vsyncF(" + strings.Join(args, ", ") + ") }) }")
				return sb.String()
			})
		case *ast.SendStmt:
			r.add(x, "send", func() string {
				return shim + ".SendTo(" + r.text(x.Chan) + ").Send(" + r.text(x.Value) + ")"
			})
		case *ast.UnaryExpr:
			if x.Op == token.ARROW {
				two := false
				switch p := parent.(type) {
				case *ast.AssignStmt:
					two = len(p.Lhs) == 2 && len(p.Rhs) == 1 && p.Rhs[0] == x
				case *ast.ValueSpec:
					two = len(p.Names) == 2 && len(p.Values) == 1 && p.Values[0] == x
				}
				r.add(x, "recv", func() string {
					m := ".Recv()"
					if two {
						m = ".Recv2()"
					}
					return shim + ".RecvFrom(" + r.text(x.X) + ")" + m
				})
			}
		case *ast.CallExpr:
			if id, ok := x.Fun.(*ast.Ident); ok && id.Name == "close" && len(x.Args) == 1 {
				builtin := true
				if r.info != nil {
					if obj := r.info.Uses[id]; obj != nil {
						_, builtin = obj.(*types.Builtin)
					}
				}
				if builtin {
					r.add(x, "close", func() string { return shim + ".SendTo(" + r.text(x.Args[0]) + ").Close()" })
				}
			}
		case *ast.RangeStmt:
			t := r.typeOf(x.X)
			if t == nil {
				break
			}
			switch u := t.Underlying().(type) {
			case *types.Chan:
				xx := x.X
				r.add(xx, "range-chan", func() string { return shim + ".RecvFrom(" + r.inside(xx) + ").Range()" })
			case *types.Map:
				if orderedKey(u.Key()) {
					xx := x.X
					r.add(xx, "range-map", func() string { return shim + ".RangeMap(" + r.inside(xx) + ")" })
				} else {
					r.rep.Unowned = append(r.rep.Unowned, fmt.Sprintf("%s: range over map with unordered key type left native", r.fset.Position(x.Pos())))
				}
			}
		}
		return true
	})
}

// inside renders the text of n applying only edits strictly inside n (not the one replacing n itself).
func (r *rw) inside(n ast.Node) string {
	a, b := r.off(n.Pos()), r.off(n.End())
	saved := r.edits
	var keep []edit
	for _, e := range r.edits {
		if !(e.from == a && e.to == b) {
			keep = append(keep, e)
		}
	}
	r.edits = keep
	s := r.splice(a, b)
	r.edits = saved
	return s
}

func usesOnly(f *ast.File, pkgName string, ok map[string]bool) (bool, string) {
	good := true
	bad := ""
	ast.Inspect(f, func(n ast.Node) bool {
		if se, is := n.(*ast.SelectorExpr); is {
			if id, is := se.X.(*ast.Ident); is && id.Name == pkgName && id.Obj == nil {
				if !ok[se.Sel.Name] {
					good = false
					bad = se.Sel.Name
				}
			}
		}
		return true
	})
	return good, bad
}

func main() {
	if len(os.Args) < 3 {
		fmt.Fprintln(os.Stderr, "usage: vrewrite <repo> <outdir>")
		os.Exit(2)
	}
	repo, out := os.Args[1], os.Args[2]
	repo, _ = filepath.Abs(repo)
	rep := &report{Rewrites: map[string]int{}}
	overlay := map[string]string{}
	ctx := build.Default
	ctx.BuildTags = append(ctx.BuildTags, "verif")
	if err := os.Chdir(repo); err != nil {
		fmt.Fprintln(os.Stderr, err)
		os.Exit(2)
	}
	for _, rel := range []string{".", "internal/freelist"} {
		dir := filepath.Join(repo, rel)
		bp, err := ctx.ImportDir(dir, 0)
		if err != nil {
			fmt.Fprintln(os.Stderr, "vrewrite:", err)
			os.Exit(2)
		}
		fset := token.NewFileSet()
		var files []*ast.File
		srcs := map[*ast.File][]byte{}
		names := map[*ast.File]string{}
		for _, gf := range bp.GoFiles {
			p := filepath.Join(dir, gf)
			b, err := os.ReadFile(p)
			if err != nil {
				fmt.Fprintln(os.Stderr, err)
				os.Exit(2)
			}
			f, err := parser.ParseFile(fset, p, b, parser.ParseComments)
			if err != nil {
				fmt.Fprintln(os.Stderr, "vrewrite: parse:", err)
				os.Exit(2)
			}
			files = append(files, f)
			srcs[f] = b
			names[f] = p
		}
		info := &types.Info{Types: map[ast.Expr]types.TypeAndValue{}, Uses: map[*ast.Ident]types.Object{}}
		conf := types.Config{Importer: importer.ForCompiler(fset, "source", nil), Error: func(err error) {
			if len(rep.Errors) < 10 {
				rep.Errors = append(rep.Errors, err.Error())
			}
		}}
		_, _ = conf.Check(bp.ImportPath, fset, files, info)
		for _, f := range files {
			r := &rw{fset: fset, src: srcs[f], info: info, rep: rep, fname: names[f]}
			r.walk(f)
			needShim := r.used
			// imports
			for _, is := range f.Imports {
				path := strings.Trim(is.Path.Value, "\"")
				var okset map[string]bool
				var target, def string
				switch path {
				case "sync":
					okset, target, def = syncOK, shimPath, "sync"
				case "time":
					okset, target, def = timeOK, timePath, "time"
				default:
					continue
				}
				name := def
				if is.Name != nil {
					name = is.Name.Name
				}
				if ok, bad := usesOnly(f, name, okset); !ok {
					rep.Unowned = append(rep.Unowned, fmt.Sprintf("%s: import %q left native (uses %s.%s)", names[f], path, name, bad))
					continue
				}
				isv := is
				nm := name
				r.edits = append(r.edits, edit{r.off(isv.Pos()), r.off(isv.End()), func() string { return nm + " \"" + target + "\"" }})
				rep.Rewrites["import-"+def]++
				r.used = true
			}
			if !r.used {
				continue
			}
			if needShim {
				at := r.off(f.Name.End())
				r.edits = append(r.edits, edit{at, at, func() string { return "\n\nimport " + shim + " \"" + shimPath + "\"" }})
			}
			res := r.splice(0, len(r.src))
			relp, _ := filepath.Rel(repo, names[f])
			op := filepath.Join(out, "src", relp)
			_ = os.MkdirAll(filepath.Dir(op), 0755)
			if err := os.WriteFile(op, []byte(res), 0644); err != nil {
				fmt.Fprintln(os.Stderr, err)
				os.Exit(2)
			}
			overlay[names[f]] = op
			rep.Files = append(rep.Files, relp)
		}
	}
	sort.Strings(rep.Files)
	ob, _ := json.MarshalIndent(map[string]interface{}{"Replace": overlay}, "", " ")
	_ = os.MkdirAll(out, 0755)
	if err := os.WriteFile(filepath.Join(out, "overlay.json"), ob, 0644); err != nil {
		fmt.Fprintln(os.Stderr, err)
		os.Exit(2)
	}
	rb, _ := json.MarshalIndent(rep, "", " ")
	_ = os.WriteFile(filepath.Join(out, "report.json"), rb, 0644)
	fmt.Printf("vrewrite: %d files instrumented, rewrites %v, unowned %d\n", len(rep.Files), rep.Rewrites, len(rep.Unowned))
}
