// Package hx is the explicit-state explorer over API programs: breadth-first search from seed states, every
// transition executed by the real code (successor = replay of the program on a fresh copy of the seed + one op).
package hx

import (
	"crypto/sha256"
	"encoding/hex"
	"encoding/json"
	"fmt"
	"os"
	"sort"
	"strings"
	"time"

	bolt "go.etcd.io/bbolt"
	"go.etcd.io/bbolt/internal/common"
	fl "go.etcd.io/bbolt/internal/freelist"
	"go.etcd.io/bbolt/zverif/apix"
	"go.etcd.io/bbolt/zverif/boltfmt"
	"go.etcd.io/bbolt/zverif/par"
	"go.etcd.io/bbolt/zverif/refmodel"
	"go.etcd.io/bbolt/zverif/vsync"
)

// Seed is a start state: a program run from an empty database, then closed.
type Seed struct {
	Name string
	Prog []apix.Op
	// Expect states what the seed file must structurally contain for the seed to serve its purpose ("" = fine);
	// a seed that misses its intent makes every exploration from it quietly vacuous, so it is a hard harness error
	Expect func(st *boltfmt.State, pageSize int) string
}

// Scope describes one exploration.
type Scope struct {
	Name     string
	Seed     Seed
	Cfg      apix.Cfg
	MaxOps   int
	MaxTx    int
	CheckLvl int
	// Enabled lists the operations to try in the current state. left = operations left within the bound.
	Enabled func(x *apix.Exec, t *Track, left int) []apix.Op
	// Boundary is the property-specific oracle at transaction boundaries (may be nil).
	Boundary func(x *apix.Exec, kind string) *apix.Fail
	// Setup is called on every fresh Exec before the program is replayed (may be nil).
	Setup func(x *apix.Exec)
	// Session: run every execution as the single logical thread of a controlled session (deadlock detection).
	Session bool
	// MapDesc: (implies Session) every map iteration of the code under test runs in descending instead of ascending
	// key order - the other extreme of the orders Go may pick (child-bucket spill order, hash-map freelist spans).
	MapDesc bool
}

// Track is the bookkeeping the explorer keeps along a program.
type Track struct {
	NTx      int      // write transactions begun
	TxOps    []string // effective operations of the open write transaction
	BeginKey string   // state key when the open write transaction began
	OpsInTx  int
}

// Job is sent to a worker: expand one program.
type Job struct {
	Scope string    `json:"scope"`
	Tier  string    `json:"tier"`
	Idx   int       `json:"idx"` // scope instance index (seed x cfg)
	Prog  []apix.Op `json:"prog"`
	Mode  string    `json:"mode,omitempty"` // "" expand, "run" execute the whole program once
}

// Succ is one executed transition.
type Succ struct {
	Op    apix.Op    `json:"op"`
	Key   string     `json:"key"`
	Fail  *apix.Fail `json:"fail,omitempty"`
	Notes []string   `json:"notes,omitempty"`
	End   bool       `json:"end,omitempty"` // no further expansion (bound reached or instance unusable)
	Obs   string     `json:"obs,omitempty"` // property-specific observation class (vacuity guard)
}

// Res is a worker's answer.
type Res struct {
	Succ     []Succ         `json:"succ"`
	Err      string         `json:"err,omitempty"`
	Counters map[string]int `json:"counters,omitempty"`
}

// Counters are property-specific counts a worker accumulates while expanding one job (summed by the coordinator).
var Counters = map[string]int{}

// Registry of scopes, filled by the checks' init code: name -> tier -> instances.
var Registry = map[string]func(tier string) []*Scope{}

var scopeCache = map[string][]*Scope{}

// Scopes returns the instances of a registered scope.
func Scopes(name, tier string) []*Scope { return scopes(name, tier) }

func scopes(name, tier string) []*Scope {
	k := name + "/" + tier
	if s, ok := scopeCache[k]; ok {
		return s
	}
	f := Registry[name]
	if f == nil {
		panic("hx: unknown scope " + name)
	}
	s := f(tier)
	scopeCache[k] = s
	return s
}

// ---- worker side ----

type seedState struct {
	data  []byte
	model *refmodel.Node
}

var seedCache = map[string]*seedState{}
var workDir string

// WorkDir returns (creating) the per-process scratch directory on tmpfs.
func WorkDir() string {
	if workDir == "" {
		base := os.Getenv("VERIF_TMP")
		if base == "" {
			base = "/dev/shm"
		}
		d, err := os.MkdirTemp(base, "vf")
		if err != nil {
			panic(err)
		}
		workDir = d
	}
	return workDir
}

// CleanWorkDir removes the scratch directory.
func CleanWorkDir() {
	if workDir != "" {
		os.RemoveAll(workDir)
		workDir = ""
	}
}

// BuildSeed runs the seed program on an empty database and returns the file and the model.
func BuildSeed(sc *Scope) (*seedState, error) {
	k := sc.Seed.Name + "|" + sc.Cfg.String()
	if s, ok := seedCache[k]; ok {
		return s, nil
	}
	path := apix.TempPath(WorkDir())
	defer os.Remove(path)
	x, f := apix.NewExec(path, sc.Cfg, nil)
	if f != nil {
		return nil, fmt.Errorf("seed %s: %v", sc.Seed.Name, f)
	}
	x.CheckLvl = 1
	if f := x.Run(sc.Seed.Prog); f != nil {
		x.Close()
		return nil, fmt.Errorf("seed %s: %v", sc.Seed.Name, f)
	}
	if _, f := x.CheckFile("seed"); f != nil {
		x.Close()
		return nil, fmt.Errorf("seed %s: %v", sc.Seed.Name, f)
	}
	x.Close()
	data, err := os.ReadFile(path)
	if err != nil {
		return nil, err
	}
	if sc.Seed.Expect != nil {
		ps := sc.Cfg.PageSize
		if ps == 0 {
			ps = os.Getpagesize()
		}
		_, st, err := apix.DecodeBytes(data, ps)
		if err != nil {
			return nil, fmt.Errorf("seed %s: %v", sc.Seed.Name, err)
		}
		if msg := sc.Seed.Expect(st, ps); msg != "" {
			return nil, fmt.Errorf("seed %s (%s) does not have the intended shape: %s", sc.Seed.Name, sc.Cfg.String(), msg)
		}
	}
	s := &seedState{data: data, model: x.Committed}
	seedCache[k] = s
	return s, nil
}

// BuildSeedData returns the bytes of the scope's seed file.
func BuildSeedData(sc *Scope) ([]byte, error) {
	s, err := BuildSeed(sc)
	if err != nil {
		return nil, err
	}
	return s.data, nil
}

// BuildSeedFull returns the seed file and its model.
func BuildSeedFull(sc *Scope) ([]byte, *refmodel.Node, error) {
	s, err := BuildSeed(sc)
	if err != nil {
		return nil, nil, err
	}
	return s.data, s.model, nil
}

var curPath string

// Fresh opens a fresh copy of the scope's seed.
func Fresh(sc *Scope) (*apix.Exec, error) {
	s, err := BuildSeed(sc)
	if err != nil {
		return nil, err
	}
	if curPath == "" {
		curPath = apix.TempPath(WorkDir())
	}
	if err := os.WriteFile(curPath, s.data, 0600); err != nil {
		return nil, err
	}
	x, f := apix.NewExec(curPath, sc.Cfg, s.model.Clone())
	if f != nil {
		return nil, fmt.Errorf("open seed copy: %v", f)
	}
	x.CheckLvl = sc.CheckLvl
	x.OnBoundary = sc.Boundary
	if sc.Setup != nil {
		sc.Setup(x)
	}
	return x, nil
}

// Retire closes an Exec; a poisoned one makes the next Fresh use a new path.
func Retire(x *apix.Exec) {
	if x == nil {
		return
	}
	if x.Poisoned {
		curPath = ""
		return
	}
	x.Close()
}

// StateKey is the exact state key at a transaction boundary (no write tx open).
func StateKey(x *apix.Exec) string {
	h := sha256.New()
	h.Write(x.FileBytes())
	if x.DB != nil {
		if f := bolt.VerifFreelist(x.DB); f != nil {
			d := fl.VerifDump(f)
			fmt.Fprintf(h, "|F%v|raw%s|A", d.Free, d.Raw)
			var tids []uint64
			for t := range d.Pending {
				tids = append(tids, uint64(t))
			}
			sort.Slice(tids, func(i, j int) bool { return tids[i] < tids[j] })
			for _, t := range tids {
				fmt.Fprintf(h, "P%d:%v/%d", t, d.Pending[common.Txid(t)], d.LastReleaseBegin[common.Txid(t)])
			}
			var pids []uint64
			for p := range d.Allocs {
				pids = append(pids, uint64(p))
			}
			sort.Slice(pids, func(i, j int) bool { return pids[i] < pids[j] })
			for _, p := range pids {
				fmt.Fprintf(h, "a%d:%d", p, d.Allocs[common.Pgid(p)])
			}
		}
		fmt.Fprintf(h, "|sz%d", bolt.VerifDataSize(x.DB))
	}
	fmt.Fprintf(h, "|cfg%s", x.Cfg.String())
	return hex.EncodeToString(h.Sum(nil)[:12]) + readersKey(x)
}

func readersKey(x *apix.Exec) string {
	s := ""
	for i, r := range x.Readers {
		if r != nil {
			s += fmt.Sprintf("|r%d@%d", i, r.ID)
		}
	}
	return s
}

// replay runs prog on x keeping the Track up to date.
func replay(x *apix.Exec, t *Track, prog []apix.Op) *apix.Fail {
	for _, op := range prog {
		if f := step(x, t, op); f != nil && f.Kind != "error" {
			return f
		}
	}
	return nil
}

var mutators = map[string]bool{"put": true, "del": true, "mkb": true, "mkbi": true, "delb": true, "mvb": true,
	"seqset": true, "seqnext": true, "fill": true, "drain": true, "cdel": true, "thin": true}

func step(x *apix.Exec, t *Track, op apix.Op) *apix.Fail {
	var before string
	if mutators[op.K] && x.WM != nil {
		before = x.WM.Canon()
	}
	if op.K == "beginW" {
		t.BeginKey = StateKey(x)
	}
	f := x.Do(op)
	if f != nil && f.Kind != "error" {
		return f
	}
	switch op.K {
	case "beginW":
		t.NTx++
		t.TxOps = nil
		t.OpsInTx = 0
	case "commit", "rollback":
		t.TxOps = nil
	default:
		if mutators[op.K] && x.WM != nil {
			t.OpsInTx++
			// an operation is effective if it changed the model, or it may have materialised nodes (any successful mutator call)
			if x.WM.Canon() != before || op.K == "seqset" {
				t.TxOps = append(t.TxOps, op.String())
			}
		}
	}
	return f
}

func keyOf(x *apix.Exec, t *Track) string {
	if x.W != nil {
		h := sha256.Sum256([]byte(t.BeginKey + "|" + strings.Join(t.TxOps, ";")))
		return "W" + hex.EncodeToString(h[:12]) + readersKey(x)
	}
	return StateKey(x)
}

// Expand replays job.Prog and executes every enabled successor operation once.
func Expand(job Job) Res {
	scs := scopes(job.Scope, job.Tier)
	sc := scs[job.Idx]
	var res Res
	// inSession runs f as the only logical thread of a controlled session when the scope asks for it, so that a
	// lock that is never released shows up as a "deadlock" verdict instead of a hang.
	inSession := func(f func()) (string, string) {
		if !sc.Session && !sc.MapDesc {
			f()
			return "", ""
		}
		s := vsync.NewSession(nil)
		if sc.MapDesc {
			s.MapOrder = true
			s.OnPoint = func(p *vsync.Point) int {
				if p.Kind == "map" {
					return p.N - 1
				}
				return 0
			}
		}
		s.Run(f)
		return s.Verdict, s.Detail
	}
	if job.Mode == "run" {
		var out Succ
		v, d := inSession(func() {
			x, err := Fresh(sc)
			if err != nil {
				res.Err = err.Error()
				return
			}
			t := &Track{}
			f := replay(x, t, job.Prog)
			if f != nil && f.Kind == "error" {
				f = nil
			}
			out = Succ{Fail: f, Notes: x.AllNotes()}
			Retire(x)
		})
		if v != "" {
			curPath = ""
			out = Succ{Fail: &apix.Fail{Kind: v, At: -1, Msg: d}}
		}
		res.Succ = []Succ{out}
		return res
	}
	left := sc.MaxOps - len(job.Prog)
	var ops []apix.Op
	v, d := inSession(func() {
		x, err := Fresh(sc)
		if err != nil {
			res.Err = err.Error()
			return
		}
		t := &Track{}
		if f := replay(x, t, job.Prog); f != nil && f.Kind != "error" {
			Retire(x)
			res.Err = "replay of an already explored program failed (nondeterminism?): " + f.Error()
			return
		}
		ops = sc.Enabled(x, t, left)
		Retire(x)
	})
	if v != "" {
		curPath = ""
		res.Err = "replay of an already explored program ended with verdict " + v + ": " + d
	}
	if res.Err != "" {
		return res
	}
	for _, op := range ops {
		op := op
		var s Succ
		var notes []string
		v, d := inSession(func() {
			x, err := Fresh(sc)
			if err != nil {
				res.Err = err.Error()
				return
			}
			t := &Track{}
			if f := replay(x, t, job.Prog); f != nil && f.Kind != "error" {
				Retire(x)
				res.Err = "replay diverged (nondeterminism?): " + f.Error()
				return
			}
			notes = x.AllNotes()
			f := step(x, t, op)
			if f == nil || f.Kind == "error" {
				// the explorations read the file through the mirror mapping: once per execution it is compared with the real file
				if cf := x.Coherent(); cf != nil {
					f = cf
				}
			}
			notes = x.AllNotes()
			s = Succ{Op: op, Notes: x.AllNotes()}
			if f != nil && f.Kind != "error" {
				s.Fail = f
				s.End = true
			} else {
				s.Key = keyOf(x, t)
				if f != nil {
					s.Obs = f.Msg
				}
				if left-1 <= 0 || x.Poisoned {
					s.End = true
				}
			}
			Retire(x)
		})
		if v != "" {
			curPath = ""
			s = Succ{Op: op, Notes: notes, End: true, Fail: &apix.Fail{Kind: v, At: len(job.Prog), Op: op.String(), Msg: d}}
		}
		if res.Err != "" {
			return res
		}
		res.Succ = append(res.Succ, s)
	}
	return res
}

// ServeWorker is the worker main loop for hx jobs.
func ServeWorker() {
	defer CleanWorkDir()
	par.Serve(func(job []byte) []byte {
		var j Job
		if err := json.Unmarshal(job, &j); err != nil {
			b, _ := json.Marshal(Res{Err: err.Error()})
			return b
		}
		Counters = map[string]int{}
		r := Expand(j)
		r.Counters = Counters
		b, _ := json.Marshal(r)
		return b
	})
}

// ---- coordinator side ----

// Violation is one reported failure with the program that produced it.
type Violation struct {
	Scope string
	Idx   int
	Cfg   apix.Cfg
	Seed  string
	Prog  []apix.Op
	Fail  *apix.Fail
	Notes []string
}

// Stats of one exploration.
type Stats struct {
	States      int
	Transitions int
	MaxDepth    int
	Failures    int
	Errors      []string
	Obs         map[string]int
	Samples     []string
	Exhaustive  bool
	Capped      string
	Known       map[string]int
	Counters    map[string]int
}

// Classify decides what to do with a failing transition: "" = violation, otherwise the known-finding id.
type Classify func(v *Violation) string

// Explore runs the BFS for all instances of a scope. onViolation is called for failures not classified as known.
func Explore(pool *par.Pool, name, tier string, deadline time.Time, classify Classify, onViolation func(*Violation)) *Stats {
	scs := scopes(name, tier)
	st := &Stats{Obs: map[string]int{}, Known: map[string]int{}, Exhaustive: true, Counters: map[string]int{}}
	seen := make([]map[string]bool, len(scs))
	type node struct {
		idx  int
		prog []apix.Op
	}
	var frontier []node
	for i := range scs {
		seen[i] = map[string]bool{}
		frontier = append(frontier, node{i, nil})
		st.States++
	}
	depth := 0
	for len(frontier) > 0 {
		if time.Now().After(deadline) {
			st.Exhaustive = false
			st.Capped = fmt.Sprintf("deadline reached at depth %d with %d programs in the frontier", depth, len(frontier))
			break
		}
		jobs := make([][]byte, len(frontier))
		for i, n := range frontier {
			jobs[i], _ = json.Marshal(Job{Scope: name, Tier: tier, Idx: n.idx, Prog: n.prog})
		}
		var next []node
		results := make([]*Res, len(frontier))
		pool.Deadline, pool.Skipped = deadline, 0
		err := pool.Run(jobs, func(r par.Result) {
			n := frontier[r.Idx]
			if r.Died || r.Hung {
				what := "worker died"
				if r.Hung {
					what = "worker hung (no answer within the per-job deadline)"
				}
				v := &Violation{Scope: name, Idx: n.idx, Cfg: scs[n.idx].Cfg, Seed: scs[n.idx].Seed.Name, Prog: n.prog,
					Fail: &apix.Fail{Kind: "crash", At: -1, Msg: what + " while expanding this program: " + lastLines(r.Stderr, 6)}}
				st.Failures++
				if k := classify(v); k != "" {
					st.Known[k]++
				} else {
					onViolation(v)
				}
				return
			}
			var res Res
			if err := json.Unmarshal(r.Out, &res); err != nil {
				st.Errors = append(st.Errors, "bad worker answer: "+err.Error())
				return
			}
			results[r.Idx] = &res
		})
		if err != nil {
			st.Errors = append(st.Errors, err.Error())
			break
		}
		// deterministic merge in frontier order
		for i, res := range results {
			if res == nil {
				continue
			}
			n := frontier[i]
			for k, v := range res.Counters {
				st.Counters[k] += v
			}
			if res.Err != "" {
				st.Errors = append(st.Errors, fmt.Sprintf("%s: %s", apix.ProgString(n.prog), res.Err))
				continue
			}
			for _, s := range res.Succ {
				st.Transitions++
				prog := append(append([]apix.Op{}, n.prog...), s.Op)
				if len(prog) > st.MaxDepth {
					st.MaxDepth = len(prog)
				}
				if s.Obs != "" {
					st.Obs[s.Obs]++
				}
				if s.Fail != nil {
					st.Failures++
					v := &Violation{Scope: name, Idx: n.idx, Cfg: scs[n.idx].Cfg, Seed: scs[n.idx].Seed.Name, Prog: prog, Fail: s.Fail, Notes: s.Notes}
					if k := classify(v); k != "" {
						st.Known[k]++
					} else {
						onViolation(v)
					}
					continue
				}
				if seen[n.idx][s.Key] {
					continue
				}
				seen[n.idx][s.Key] = true
				st.States++
				if len(st.Samples) < 6 && len(prog) >= 3 && st.States%97 == 3 {
					st.Samples = append(st.Samples, fmt.Sprintf("[%s|%s] %s", scs[n.idx].Seed.Name, scs[n.idx].Cfg.String(), apix.ProgString(prog)))
				}
				if !s.End {
					next = append(next, node{n.idx, prog})
				}
			}
		}
		if pool.Skipped > 0 {
			st.Exhaustive = false
			st.Capped = fmt.Sprintf("deadline reached inside depth %d: %d of %d programs of that level not expanded", depth+1, pool.Skipped, len(frontier))
			break
		}
		frontier = next
		depth++
	}
	pool.Deadline = time.Time{}
	if len(st.Samples) == 0 {
		st.Samples = append(st.Samples, fmt.Sprintf("[%s] (only programs shorter than 3 operations were explored)", name))
	}
	return st
}

func lastLines(s string, n int) string {
	l := strings.Split(strings.TrimSpace(s), "\n")
	if len(l) > n {
		l = l[len(l)-n:]
	}
	return strings.Join(l, " / ")
}
