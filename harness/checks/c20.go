package checks

import (
	"bytes"
	"crypto/sha256"
	"fmt"
	"os"
	"path/filepath"
	"sort"
	"time"

	bolt "go.etcd.io/bbolt"
	"go.etcd.io/bbolt/internal/common"
	fl "go.etcd.io/bbolt/internal/freelist"
	"go.etcd.io/bbolt/zverif/apix"
	"go.etcd.io/bbolt/zverif/boltfmt"
	"go.etcd.io/bbolt/zverif/hx"
	"go.etcd.io/bbolt/zverif/refmodel"
	"go.etcd.io/bbolt/zverif/vsync"
)

// ---- helpers shared by C15 / C20 ----

// openAndCheck opens path, compares its content with model, runs Tx.Check, and (wantFree) compares the loaded free
// list with the set of unreachable pages as the independent decoder sees it.
func openAndCheck(path string, ps int, model *refmodel.Node, wantTxid int64, freeMustEqualUnreachable bool, followUp bool) string {
	// read-only first: a read-write Open may itself commit (freelist flush), which would hide the txid
	o := apix.Cfg{Freelist: "array", ReadOnly: true, PreLoad: true}.Options()
	db, err := bolt.Open(path, 0600, o)
	if err != nil {
		return "open: " + err.Error()
	}
	defer func() { db.Close() }()
	msg := ""
	_ = db.View(func(tx *bolt.Tx) error {
		if wantTxid >= 0 && int64(tx.ID()) != wantTxid {
			msg = fmt.Sprintf("opens at txid %d, want %d", tx.ID(), wantTxid)
			return nil
		}
		got, err := apix.DumpTx(tx, apix.DumpOpts{Backward: true, Gets: true})
		if err != nil {
			msg = err.Error()
			return nil
		}
		if d := refmodel.Diff(got, model, ""); d != "" {
			msg = "content(left) vs expected(right): " + d
			return nil
		}
		for e := range vsync.RecvFrom(tx.Check()).Range() {
			if msg == "" {
				msg = "Tx.Check: " + e.Error()
			}
		}
		return nil
	})
	if msg != "" {
		return msg
	}
	_, st, err := apix.DecodeFile(path, ps)
	if err != nil {
		return "decode: " + err.Error()
	}
	if len(st.Problems) > 0 {
		return fmt.Sprintf("page accounting: %s", st.Problems[0])
	}
	if freeMustEqualUnreachable {
		d := fl.VerifDump(bolt.VerifFreelist(db))
		mem := map[common.Pgid]bool{}
		for _, id := range d.Free {
			mem[id] = true
		}
		for _, l := range d.Pending {
			for _, p := range l {
				mem[p.ID] = true
			}
		}
		for id, u := range st.Use {
			unreach := u == boltfmt.UseFree
			if unreach != mem[common.Pgid(id)] {
				return fmt.Sprintf("page %d: decoder says %q, in loaded free list: %v", id, u, mem[common.Pgid(id)])
			}
		}
	}
	if followUp {
		db.Close()
		db, err = bolt.Open(path, 0600, apix.Cfg{Freelist: "array"}.Options())
		if err != nil {
			return "read-write open: " + err.Error()
		}
		if err := db.Update(func(tx *bolt.Tx) error {
			b, err := tx.CreateBucketIfNotExists([]byte("zz"))
			if err != nil {
				return err
			}
			return b.Put([]byte("k"), bytes.Repeat([]byte("v"), ps))
		}); err != nil {
			return "follow-up commit: " + err.Error()
		}
		_ = db.View(func(tx *bolt.Tx) error {
			for e := range vsync.RecvFrom(tx.Check()).Range() {
				if msg == "" {
					msg = "Tx.Check after follow-up commit: " + e.Error()
				}
			}
			return nil
		})
	}
	return msg
}

func sha(path string) [32]byte {
	b, _ := os.ReadFile(path)
	return sha256.Sum256(b)
}

func dirList(d string) []string {
	es, _ := os.ReadDir(d)
	var out []string
	for _, e := range es {
		out = append(out, e.Name())
	}
	sort.Strings(out)
	return out
}

var cliSeq int

// scratchCopy copies the database file of x into a fresh directory and returns (dir, src path).
func scratchCopy(x *apix.Exec) (string, string, error) {
	cliSeq++
	d := filepath.Join(hx.WorkDir(), fmt.Sprintf("cli%d_%d", os.Getpid(), cliSeq))
	if err := os.MkdirAll(d, 0755); err != nil {
		return "", "", err
	}
	src := filepath.Join(d, "src.db")
	if err := os.WriteFile(src, x.FileBytes(), 0600); err != nil {
		return "", "", err
	}
	return d, src, nil
}

// ---- C20: repair commands ----

func boundaryC20(x *apix.Exec, kind string) *apix.Fail {
	if kind != "commit" {
		return nil
	}
	fail := func(f string, a ...interface{}) *apix.Fail {
		return &apix.Fail{Kind: "mismatch", At: -1, Msg: "[c20] " + fmt.Sprintf(f, a...)}
	}
	d, src, err := scratchCopy(x)
	if err != nil {
		return fail("harness: %v", err)
	}
	defer os.RemoveAll(d)
	ps := x.Cfg.PageSize
	before := sha(src)
	only := func(what string, names ...string) *apix.Fail {
		want := append([]string{"src.db"}, names...)
		sort.Strings(want)
		if got := dirList(d); fmt.Sprint(got) != fmt.Sprint(want) {
			return fail("%s: files in the directory afterwards %v, want %v", what, got, want)
		}
		if sha(src) != before {
			return fail("%s: the source file was modified", what)
		}
		return nil
	}
	hx.Counters["states_repaired"]++
	// 1. freelist abandon
	ab := filepath.Join(d, "abandon.db")
	if code, out := RunCLI("surgery", "freelist", "abandon", src, "--output", ab); code != 0 {
		return fail("surgery freelist abandon exits %d: %s", code, lastLine(out))
	}
	if f := only("freelist abandon", "abandon.db"); f != nil {
		return f
	}
	im, err := boltfmt.Load(mustRead(ab), ps)
	if err != nil {
		return fail("abandon output unreadable: %v", err)
	}
	for i, m := range im.Metas {
		if !m.Valid || m.Freelist != boltfmt.NoFreelist {
			return fail("after freelist abandon meta %d: valid=%v freelist=%d (want no freelist in both metas)", i, m.Valid, m.Freelist)
		}
	}
	// 2. rebuild from the abandoned file (source of this step: abandon.db)
	rb := filepath.Join(d, "rebuild.db")
	abSum := sha(ab)
	if code, out := RunCLI("surgery", "freelist", "rebuild", ab, "--output", rb); code != 0 {
		return fail("surgery freelist rebuild exits %d: %s", code, lastLine(out))
	}
	if sha(ab) != abSum {
		return fail("freelist rebuild modified its source file")
	}
	if f := only("freelist rebuild", "abandon.db", "rebuild.db"); f != nil {
		return f
	}
	_, rst, err := apix.DecodeFile(rb, ps)
	if err != nil {
		return fail("rebuild output: %v", err)
	}
	if rst.Meta.Freelist == boltfmt.NoFreelist {
		return fail("rebuilt file has no persisted freelist")
	}
	if len(rst.Problems) > 0 {
		return fail("rebuilt file: persisted free list is not exactly the unreachable pages: %s", rst.Problems[0])
	}
	// rebuilding a file that still has a freelist must be refused
	if !x.Cfg.NoFreelistSync {
		if code, _ := RunCLI("surgery", "freelist", "rebuild", src, "--output", filepath.Join(d, "no.db")); code == 0 {
			return fail("freelist rebuild accepted a file whose freelist is persisted")
		}
		os.Remove(filepath.Join(d, "no.db"))
	}
	if msg := openAndCheck(ab, ps, x.Committed, -1, true, false); msg != "" {
		return fail("file after freelist abandon: %s", msg)
	}
	if msg := openAndCheck(rb, ps, x.Committed, -1, true, true); msg != "" {
		return fail("file after freelist abandon + rebuild: %s", msg)
	}
	os.Remove(ab)
	os.Remove(rb)
	// 3. revert-meta-page directly after the commit
	if x.PrevCommitted != nil {
		rv := filepath.Join(d, "revert.db")
		if code, out := RunCLI("surgery", "revert-meta-page", src, "--output", rv); code != 0 {
			return fail("surgery revert-meta-page exits %d: %s", code, lastLine(out))
		}
		if f := only("revert-meta-page", "revert.db"); f != nil {
			return f
		}
		if msg := openAndCheck(rv, ps, x.PrevCommitted, int64(x.CommittedID)-1, false, true); msg != "" {
			return fail("file after revert-meta-page (expecting the state of txid %d): %s", x.CommittedID-1, msg)
		}
		hx.Counters["reverts"]++
	}
	return nil
}

func mustRead(p string) []byte {
	b, err := os.ReadFile(p)
	if err != nil {
		panic(err)
	}
	return b
}

func init() {
	hx.Registry["c20-flat"] = func(tier string) []*hx.Scope {
		n := 4
		seeds := []string{"empty", "twolevel", "freeruns", "bigkeys"}
		cs := []apix.Cfg{{PageSize: 1024, Freelist: "array"}, {PageSize: 4096, Freelist: "hashmap", NoFreelistSync: true}, {PageSize: 16384, Freelist: "array"}}
		if tier == "thorough" {
			n = 5
			seeds = []string{"empty", "inline", "twolevel", "threelevel", "overflow", "freeruns", "bigkeys"}
			cs = append(cs, apix.Cfg{PageSize: 1024, Freelist: "hashmap", NoFreelistSync: true}, apix.Cfg{PageSize: 4096, Freelist: "array"})
		}
		return mk("c20-flat", seeds, cs, n, 0, flatAlphabet([]string{"a", "L1"}, []string{"s", "X"}, true), boundaryC20)
	}
	hx.Registry["c20-nested"] = func(tier string) []*hx.Scope {
		n := 4
		if tier == "thorough" {
			n = 5
		}
		cs := []apix.Cfg{{PageSize: 1024, Freelist: "array"}, {PageSize: 1024, Freelist: "hashmap", NoFreelistSync: true}}
		return mk("c20-nested", []string{"empty", "nested"}, cs, n, 0, nestedAlphabet([]string{"p", "q"}, 2, false), boundaryC20)
	}
}

// C20: repair commands restore exactly what they promise.
func C20(tier string) int {
	return RunHX(HXCheck{
		Prop: "C20", Level: "model_checking", Scopes: []string{"c20-flat", "c20-nested"},
		Rule:        "breadth-first enumeration of all programs within the bound from each seed state, at page sizes 1024/4096/16384 with the freelist persisted or not; directly after every commit the file is copied and `surgery freelist abandon`, then `surgery freelist rebuild` on the abandoned file, and `surgery revert-meta-page` are run (the real command tree, in-process); oracle: abandon/rebuild outputs have the same logical content as the model, their loaded free list equals the decoder's set of unreachable pages, the rebuilt file persists exactly that list, Tx.Check and page accounting are clean, a follow-up commit works; the reverted file opens at exactly the previous version (content and txid) and accepts a commit; every command leaves its source byte-identical and creates only its output file; rebuild refuses a file that still has a freelist",
		Assumptions: []string{"commands are run through command.NewRootCommand() in the worker process; the exit status mapping of main.go is covered by C19's binary runs"},
		Quick:       100 * time.Second, Thorough: 10 * time.Minute,
	}, tier)
}
