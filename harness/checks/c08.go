package checks

import (
	"time"

	bolt "go.etcd.io/bbolt"
	"go.etcd.io/bbolt/zverif/apix"
	"go.etcd.io/bbolt/zverif/hx"
)

// faultAlphabet adds, in every state with an open write transaction, one "commit with the k-th I/O call failing"
// operation per I/O call the clean commit would issue and per failure shape.
func faultAlphabet(base func(x *apix.Exec, t *hx.Track, left int) []apix.Op, reopen []apix.Cfg) func(x *apix.Exec, t *hx.Track, left int) []apix.Op {
	return func(x *apix.Exec, t *hx.Track, left int) []apix.Op {
		if left <= 0 {
			return nil
		}
		if x.Unmapped {
			var ops []apix.Op
			for _, r := range x.Readers {
				if r != nil {
					return nil // readers pin the stale state; nothing further to explore here
				}
			}
			for i := range reopen {
				c := reopen[i]
				ops = append(ops, apix.Op{K: "reopen", Cfg: &c})
			}
			return ops
		}
		ops := base(x, t, left)
		if x.W != nil && left >= 1 {
			kinds := x.ProbeCommit() // consumes x
			for k, kd := range kinds {
				ops = append(ops, apix.Op{K: "commitF", N: k, V: "fail"})
				if kd == bolt.VerifWrite {
					ops = append(ops, apix.Op{K: "commitF", N: k, V: "partial"})
				}
			}
		}
		return ops
	}
}

var faultBodies = []apix.Op{
	op("put", P("p"), "a", "X"), op("del", P("p"), "a", ""),
	{K: "fill", P: P("p"), Key: "k", V: "M", N: 6}, {K: "fill", P: P("p"), Key: "g", V: "X", N: 12},
	op("mkb", P("p"), "q", ""), op("delb", nil, "p", ""),
}

// mkC08 builds the fault-exploration scopes (shared by the properties that judge failed commits by their own oracle).
func mkC08(name string, readers int, imm int) func(tier string) []*hx.Scope {
	return mkC08w(name, readers, imm, nil)
}

func mkC08w(name string, readers int, imm int, wrap func(base func(x *apix.Exec, t *hx.Track, left int) []apix.Op) func(x *apix.Exec, t *hx.Track, left int) []apix.Op) func(tier string) []*hx.Scope {
	{
		return func(tier string) []*hx.Scope {
			n, maxTx := 6, 3
			seeds := []string{"twolevel", "freeruns"}
			cs := []apix.Cfg{{PageSize: 1024, Freelist: "array"}, {PageSize: 1024, Freelist: "hashmap", NoFreelistSync: true}}
			if tier == "thorough" {
				n, maxTx = 7, 3
				seeds = []string{"inline", "twolevel", "overflow", "freeruns"}
				cs = append(cs, apix.Cfg{PageSize: 1024, Freelist: "hashmap"}, apix.Cfg{PageSize: 1024, Freelist: "array", NoFreelistSync: true, NoGrowSync: true},
					apix.Cfg{PageSize: 4096, Freelist: "array"})
			}
			for i := range cs {
				cs[i].InitialMmapSize = imm
			}
			ro := []apix.Cfg{{Freelist: "array", InitialMmapSize: imm}}
			en := faultAlphabet(lifeAlphabet(readers, faultBodies, ro, maxTx), ro)
			if wrap != nil {
				en = wrap(en)
			}
			scs := mk(name, seeds, cs, n, 1, en, boundaryC07)
			for _, s := range scs {
				s.Session = true
				s.Setup = func(x *apix.Exec) { x.EnableMonitor(true) }
			}
			return scs
		}
	}
}

func init() {
	// with a reader held across the failure; the map is large enough that no commit has to remap (a remapping
	// writer and a reader on one goroutine is the documented deadlock, not a defect)
	hx.Registry["c08-life"] = mkC08("c08-life", 1, 1<<20)
	// without readers and with the default map size: commits that grow the file issue mmap, truncate and fsync calls
	hx.Registry["c08-grow"] = mkC08("c08-grow", 0, 0)
	// the same fault exploration, judged by other properties' oracles (C07: accounting after failed transactions;
	// C02: readers held across failed transactions keep their snapshot)
	hx.Registry["c07-fault"] = mkC08("c07-fault", 1, 1<<20)
	hx.Registry["c02-fault"] = mkC08("c02-fault", 2, 1<<20)
	hx.Registry["c06-fault"] = func(tier string) []*hx.Scope {
		scs := mkC08("c06-fault", 1, 1<<20)(tier)
		for _, s := range scs {
			s.Boundary = nil // judged by the write monitor (and the allocatable-vs-visible check) alone
		}
		return scs
	}
	hx.Registry["c12-fault"] = func(tier string) []*hx.Scope {
		scs := mkC08("c12-fault", 1, 1<<20)(tier)
		for _, s := range scs {
			s.Boundary = boundaryFmt
		}
		return scs
	}
}

// C08: a failed commit changes nothing and leaves the database usable.
func C08(tier string) int {
	return RunHX(HXCheck{
		Prop: "C08", Level: "fault_enumeration", Scopes: []string{"c08-life", "c08-grow"},
		Rule:        "explicit-state exploration of programs (write transactions with page-freeing, file-growing and bucket-deleting bodies, an optional reader held across, rollbacks, reopen) in which, at every state with an open write transaction, the commit is executed once cleanly to count its I/O calls and then once per call index k and failure shape (write: fail / store first sector then fail; fdatasync, fsync, truncate, mmap: fail), one failure per run; after the failure: Commit returned an error, fresh and held read transactions dump the expected version, page accounting / Stats / Tx.Check are exact, every write is checked by the C06 monitor, the exploration continues with follow-up transactions and reopen, and the whole execution runs under the controlled scheduler so that an unreleased lock is a deadlock verdict. Which clause applies (strict pre-state, or the final-sync exception) is decided from the file with the independent decoder. distinct_nontrivial = distinct states reached",
		Assumptions: []string{"one injected failure per execution, as the property states", "after a failed mmap the documented ErrInvalidMapping is accepted until reopen"},
		Quick:       100 * time.Second, Thorough: 10 * time.Minute,
		Cov: func(total *hx.Stats, cov map[string]interface{}) {
			cov["evaluations"] = total.Transitions
			cov["distinct_nontrivial"] = total.States
		},
	}, tier)
}
