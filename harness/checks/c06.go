package checks

import (
	"time"

	"go.etcd.io/bbolt/zverif/apix"
	"go.etcd.io/bbolt/zverif/hx"
)

var fmtOnly = map[string]bool{"format": true}

// boundaryFmt: only decode the file and compare content (keeps the exploration going past accounting findings).
func boundaryFmt(x *apix.Exec, kind string) *apix.Fail {
	_, f := x.CheckFileSel("after "+kind, fmtOnly)
	return f
}

func init() {
	hx.Registry["c06-life"] = func(tier string) []*hx.Scope { return lifeScopes("c06-life", tier, false, nil) }
	hx.Registry["c06-nested"] = func(tier string) []*hx.Scope { return nestedScopes("c06-nested", tier, nil) }
	// a state whose free list spans several pages (the freelist pages are part of the protected page set)
	hx.Registry["c06-bigfree"] = func(tier string) []*hx.Scope {
		n := 5
		if tier == "thorough" {
			n = 7
		}
		cs := []apix.Cfg{{PageSize: 1024, Freelist: "array", InitialMmapSize: 1 << 20}, {PageSize: 1024, Freelist: "hashmap", InitialMmapSize: 1 << 20}}
		scs := mk("c06-bigfree", []string{"bigfree"}, cs, n, 1, lifeAlphabet(1, []apix.Op{op("put", P("p"), "a", "X"), op("del", P("p"), "a", "")}, nil, 3), nil)
		for _, s := range scs {
			s.Setup = func(x *apix.Exec) { x.EnableMonitor(true) }
		}
		return scs
	}
	hx.Registry["c10-life"] = func(tier string) []*hx.Scope {
		scs := lifeScopes("c10-life", tier, true, nil)
		return scs
	}
	// three readers of different ages closing in every order, two small bodies (reader bookkeeping is what matters here)
	// failed commits (every single I/O failure of every commit) with readers held across: the physical rollback must not
	// make a page reusable that an open reader's version references (judged by the allocatable-vs-visible check and the
	// write monitor)
	hx.Registry["c10-fault"] = func(tier string) []*hx.Scope {
		scs := mkC08("c10-fault", 2, 1<<20)(tier)
		for _, s := range scs {
			s.Boundary = nil
			s.MaxOps = 6
		}
		return scs
	}
	hx.Registry["c10-readers"] = func(tier string) []*hx.Scope {
		n, maxTx := 10, 3
		if tier == "thorough" {
			n, maxTx = 12, 4
		}
		cs := []apix.Cfg{{PageSize: 1024, Freelist: "array", InitialMmapSize: 1 << 20}, {PageSize: 1024, Freelist: "hashmap", NoFreelistSync: true, InitialMmapSize: 1 << 20}}
		bodies := []apix.Op{op("put", P("p"), "a", "X")}
		en := lifeAlphabet(3, bodies, nil, maxTx)
		scs := mk("c10-readers", []string{"twolevel"}, cs, n, 0, func(x *apix.Exec, t *hx.Track, left int) []apix.Op {
			var out []apix.Op
			for _, o := range en(x, t, left) {
				if o.K == "rollback" || (o.K == "beginR" && x.W != nil) || (o.K == "closeR" && x.W != nil) {
					continue // keep the space small: readers open and close between transactions only
				}
				out = append(out, o)
			}
			return out
		}, nil)
		for _, s := range scs {
			s.Setup = func(x *apix.Exec) { x.EnableMonitor(true) }
		}
		return scs
	}
	hx.Registry["c12-life"] = func(tier string) []*hx.Scope { return lifeScopes("c12-life", tier, false, boundaryFmt) }
	hx.Registry["c12-nested"] = func(tier string) []*hx.Scope { return nestedScopes("c12-nested", tier, boundaryFmt) }
	hx.Registry["c12-flat"] = func(tier string) []*hx.Scope {
		n := 4
		seeds := []string{"empty", "twolevel", "overflow"}
		cs := cfgsAcct(tier)
		if tier == "thorough" {
			n = 5
			seeds = []string{"empty", "inline", "leaf", "twolevel", "threelevel", "overflow"}
		} else {
			cs = append(cs, apix.Cfg{PageSize: 4096, Freelist: "array"})
		}
		return mk("c12-flat", seeds, cs, n, 1, flatAlphabet([]string{"a", "L1"}, []string{"e", "s", "X"}, true), boundaryFmt)
	}
}

// C06: the write monitor — no write modifies a page of a visible committed state.
func C06(tier string) int {
	return RunHX(HXCheck{
		Prop: "C06", Level: "model_checking", Scopes: []string{"c06-life", "c06-bigfree", "c06-fault", "c06-nested"},
		Rule:        "breadth-first enumeration of all programs within the bound (writers with page-freeing bodies, readers of every age opening/closing before, between and during write transactions, rollbacks, failed commits (scope c06-fault: every single I/O failure of every commit) and what follows them, reopen with the other freelist backend / sync setting, nested bucket delete/move, a free list spanning several pages); every WriteAt issued to the data file is checked at the moment it is issued against the page sets (tree, overflow, freelist pages as decoded by boltfmt when that version was committed) of the newest committed state and of every open reader's state, and against the meta-slot rule; a state is a distinct exact state key",
		Assumptions: []string{"page sets come from the independent decoder at commit time", "a write that leaves every byte of a protected page unchanged is counted, not flagged"},
		Quick:       100 * time.Second, Thorough: 10 * time.Minute,
	}, tier)
}

// C10: reclamation of freed pages.
func C10(tier string) int {
	return RunHX(HXCheck{
		Prop: "C10", Level: "model_checking", Scopes: []string{"c10-life", "c10-readers", "c10-fault"},
		Rule:        "breadth-first enumeration of all programs within the bound (overwrite-heavy write transactions, every pattern of up to 2 readers opening and closing between and during them, rollbacks, reopen; scope c10-readers: up to 3 readers of different ages opening and closing in every order between the transactions); oracle at every writer begin: no allocatable page belongs to a version an open reader or the newest state needs, and with no reader open nothing is left pending; after every commit with no reader open: pending pages are a subset of pages(previous version) minus pages(new version) and Stats agrees with the allocator",
		Assumptions: []string{"page sets from the independent decoder", "the unbounded-growth clause is decided only up to the explored horizon (DESIGN.md 7): steady-state histories of 12 identical overwrite transactions must stop moving the high-water mark"},
		Extra:       steadyState,
		Quick:       120 * time.Second, Thorough: 10 * time.Minute,
	}, tier)
}

// C12: the file format stays version 2 (three-way agreement decoder / API / model on every explored state).
func C12(tier string) int {
	return RunHX(HXCheck{
		Prop: "C12", Level: "model_checking", Scopes: []string{"c12-flat", "c12-backup", "c12-life", "c12-nested", "c12-fault"},
		Rule:        "breadth-first enumeration of all programs within the bound; at every transaction boundary the file is decoded by boltfmt (explicit little-endian offsets of the published version-2 layout, own FNV-1a) and its logical content must equal the reference model (which the API dump is compared with as well), both meta pages must validate with the right slot/txid parity, page size and flags; plus the golden-file corpus of the pinned build; plus hand-encoded version-2 files whose freelist page lists 65534..65536 (thorough: ..70001) ids (the 0xFFFF count convention), which must open with exactly those ids free under both backends, pass Tx.Check, accept a commit and decode again afterwards",
		Assumptions: []string{"boltfmt shares no code with bbolt", "golden corpus: /verif/golden, written once by the pinned build (./run golden)"},
		Extra: func(tier string, cov map[string]interface{}) []string {
			return append(goldenCheck(tier, cov), bigFreelistFiles(tier, cov)...)
		},
		Quick: 100 * time.Second, Thorough: 10 * time.Minute,
	}, tier)
}
