// Package checks holds the per-property checks.
package checks

import (
	"encoding/json"
	"fmt"
	"os"
	"path/filepath"
	"regexp"
	"runtime"
	"sort"
	"strconv"
	"strings"
	"time"

	"go.etcd.io/bbolt/zverif/apix"
	"go.etcd.io/bbolt/zverif/evid"
	"go.etcd.io/bbolt/zverif/hx"
	"go.etcd.io/bbolt/zverif/par"
)

// Finding is one entry of known_findings.json.
type Finding struct {
	ID       string `json:"id"`
	Property string `json:"property"`
	Note     string `json:"requires_note,omitempty"` // structural predicate on the failing case, evaluated by the executor
	Kind     string `json:"fail_kind,omitempty"`     // mismatch | panic | crash | ...
	Msg      string `json:"msg_regex,omitempty"`     // exact divergence
	What     string `json:"what"`
}

type findingsFile struct {
	Findings []Finding `json:"findings"`
	Fixed    []string  `json:"fixed"`
}

var findings []Finding

// LoadFindings reads /verif/known_findings.json.
func LoadFindings() {
	b, err := os.ReadFile(filepath.Join(evid.Root(), "known_findings.json"))
	if err != nil {
		return
	}
	var ff findingsFile
	if err := json.Unmarshal(b, &ff); err != nil {
		fmt.Fprintf(os.Stderr, "known_findings.json: %v\n", err)
		os.Exit(2)
	}
	findings = ff.Findings
}

// MatchFinding returns the known finding matching a failure of property prop, or nil.
func MatchFinding(prop string, notes []string, kind, msg string) *Finding {
	for i := range findings {
		f := &findings[i]
		if f.Property != prop {
			continue
		}
		if f.Note != "" {
			ok := false
			for _, n := range notes {
				if n == f.Note {
					ok = true
				}
			}
			if !ok {
				continue
			}
		}
		if f.Kind != "" && f.Kind != kind {
			continue
		}
		if f.Msg != "" {
			if ok, _ := regexp.MatchString(f.Msg, msg); !ok {
				continue
			}
		}
		return f
	}
	return nil
}

// Workers is the number of worker processes to use.
func Workers() int {
	if w, err := strconv.Atoi(os.Getenv("VERIF_WORKERS")); err == nil && w > 0 {
		return w
	}
	// Measured in this sandbox (16 vCPUs): explorations that open, read and write files for every transition are
	// fastest with about half the cores (6-10 workers: 47-51 s, 16 workers: 71 s for the same C04 run) - kernel paths
	// do not scale here; CPU-bound schedule explorations use all cores (WorkersCPU).
	n := runtime.NumCPU() / 2
	if n > 8 {
		n = 8
	}
	if n < 1 {
		n = 1
	}
	return n
}

// WorkersCPU is the worker count for CPU-bound explorations (schedules, cursor sequences).
func WorkersCPU() int {
	if w, err := strconv.Atoi(os.Getenv("VERIF_WORKERS")); err == nil && w > 0 {
		return w
	}
	n := runtime.NumCPU()
	if n > 16 {
		n = 16
	}
	return n
}

// HXCheck describes a property check built on the hx explorer.
type HXCheck struct {
	Prop        string
	Level       string
	Scopes      []string
	Rule        string
	Assumptions []string
	Quick       time.Duration // internal deadline; reaching it ends the run with exhaustive=false, never with an alarm
	Thorough    time.Duration
	Extra       func(tier string, cov map[string]interface{}) []string // additional sweeps; returns violation replay paths
	Cov         func(total *hx.Stats, cov map[string]interface{})      // property-specific coverage keys
}

// RunHX runs an hx based check and returns the process exit code.
func RunHX(c HXCheck, tier string) int {
	start := time.Now()
	LoadFindings()
	dl := c.Quick
	if tier == "thorough" {
		dl = c.Thorough
	}
	if v, err := strconv.Atoi(os.Getenv("VERIF_DEADLINE_S")); err == nil && v > 0 {
		dl = time.Duration(v) * time.Second // for trying things on a loaded machine
	}
	deadline := start.Add(dl)
	pool := par.NewPool(Workers(), "worker", "hx")
	// per-job limit: only a backstop against a call that never returns (expansions take milliseconds to seconds; the
	// generous value keeps a slow, loaded machine from ever turning a long job into a "hang")
	pool.Timeout = 15 * time.Minute
	defer pool.Close()
	total := &hx.Stats{Obs: map[string]int{}, Known: map[string]int{}, Exhaustive: true, Counters: map[string]int{}}
	var viols []string
	knownSeen := map[string]*Finding{}
	perScope := map[string]interface{}{}
	for si, name := range c.Scopes {
		// fair share of what is left of the budget: a scope that finishes early leaves its time to the later ones, a
		// scope that does not finish cannot starve them (each is cut at a complete BFS level or inside one, and says so)
		scopeDeadline := deadline
		if left := time.Until(deadline); left > 0 {
			scopeDeadline = time.Now().Add(left / time.Duration(len(c.Scopes)-si))
		}
		classify := func(v *hx.Violation) string {
			if f := MatchFinding(c.Prop, v.Notes, v.Fail.Kind, v.Fail.Msg); f != nil {
				knownSeen[f.ID] = f
				return f.ID
			}
			return ""
		}
		onViol := func(v *hx.Violation) {
			if len(viols) >= 5 {
				return
			}
			// re-execute twice: the same program must fail the same way
			same, again := 0, 0
			for k := 0; k < 2; k++ {
				if f, _ := RunProgram(pool, v.Scope, tier, v.Idx, v.Prog); f != nil && f.Kind != "harness" {
					again++
					if f.Kind == v.Fail.Kind && f.Msg == v.Fail.Msg {
						same++
					}
				}
			}
			art := map[string]interface{}{"property": c.Prop, "scope": v.Scope, "tier": tier, "idx": v.Idx, "seed": v.Seed, "cfg": v.Cfg,
				"program": v.Prog, "program_text": apix.ProgString(v.Prog), "fail": v.Fail, "notes": v.Notes, "reproduced": same, "failed_again": again,
				"go_test": GoTest(v, tier)}
			p := evid.Replay(c.Prop, art)
			// the same program failing on every execution is a violation even when the wording differs between the runs
			// (a message may quote garbage read from a recycled page); a re-run that PASSES means nondeterminism the
			// harness does not own, which is a harness error, never a violation
			if again < 2 && v.Fail.Kind != "crash" {
				fmt.Printf("UNSTABLE: property=%s failure did not reproduce (%d/2 re-runs failed), not reported as violation: %s\n", c.Prop, again, p)
				total.Errors = append(total.Errors, "unstable failure "+p)
				return
			}
			viols = append(viols, p)
			evid.Violation(c.Prop, p)
			fmt.Printf("  %s\n  program: %s\n", v.Fail.Error(), apix.ProgString(v.Prog))
		}
		st := hx.Explore(pool, name, tier, scopeDeadline, classify, onViol)
		total.States += st.States
		total.Transitions += st.Transitions
		total.Failures += st.Failures
		if st.MaxDepth > total.MaxDepth {
			total.MaxDepth = st.MaxDepth
		}
		total.Errors = append(total.Errors, st.Errors...)
		for k, v := range st.Obs {
			total.Obs[k] += v
		}
		for k, v := range st.Known {
			total.Known[k] += v
		}
		for k, v := range st.Counters {
			total.Counters[k] += v
		}
		total.Samples = append(total.Samples, st.Samples...)
		if !st.Exhaustive {
			total.Exhaustive = false
			total.Capped += name + ": " + st.Capped + "; "
		}
		perScope[name] = map[string]interface{}{"states": st.States, "transitions": st.Transitions, "max_depth": st.MaxDepth,
			"exhaustive": st.Exhaustive, "known_finding_hits": st.Known, "instances": len(hx.Scopes(name, tier))}
		fmt.Printf("%s %s: scope %s: states=%d transitions=%d depth=%d exhaustive=%v known=%v errors=%d (%.1fs)\n",
			c.Prop, tier, name, st.States, st.Transitions, st.MaxDepth, st.Exhaustive, st.Known, len(st.Errors), time.Since(start).Seconds())
	}
	cov := map[string]interface{}{
		"states":                        total.States,
		"transitions":                   total.Transitions,
		"traces_validated_against_impl": total.Transitions,
		"evaluations":                   total.Transitions,
		"distinct_nontrivial":           total.States,
		"rule":                          c.Rule,
		"samples":                       total.Samples,
		"exhaustive":                    total.Exhaustive && len(total.Errors) == 0,
		"caps_hit":                      total.Capped,
		"max_depth":                     total.MaxDepth,
		"scopes":                        perScope,
		"known_findings_seen":           keys(knownSeen),
		"known_finding_hits":            total.Known,
		"harness_errors":                total.Errors,
		"worker_restarts":               pool.Restarts,
		"failures_total":                total.Failures,
		"counters":                      total.Counters,
		"observation_classes":           topObs(total.Obs, 30),
	}
	if c.Cov != nil {
		c.Cov(total, cov)
	}
	if c.Extra != nil {
		viols = append(viols, c.Extra(tier, cov)...)
	}
	ids := keys(knownSeen)
	for _, id := range ids {
		fmt.Printf("KNOWN-FINDING: property=%s %s: %s\n", c.Prop, id, knownSeen[id].What)
	}
	ev := &evid.Evidence{PropertyID: c.Prop, Tier: tier, Level: c.Level, Coverage: cov, Assumptions: c.Assumptions, Violations: len(viols)}
	if err := ev.Write(start); err != nil {
		fmt.Fprintln(os.Stderr, "evidence:", err)
		return 2
	}
	if len(total.Errors) > 0 {
		for i, e := range total.Errors {
			if i < 5 {
				fmt.Fprintln(os.Stderr, "harness error:", e)
			}
		}
	}
	if len(viols) > 0 {
		return 1
	}
	if len(total.Errors) > 0 {
		return 2
	}
	fmt.Printf("%s %s: OK states=%d transitions=%d exhaustive=%v wall=%.1fs\n", c.Prop, tier, total.States, total.Transitions, total.Exhaustive, time.Since(start).Seconds())
	return 0
}

// topObs returns the most frequent observation classes (vacuity guard: what kinds of outcomes were seen).
func topObs(m map[string]int, n int) map[string]int {
	type kv struct {
		k string
		v int
	}
	var l []kv
	for k, v := range m {
		l = append(l, kv{k, v})
	}
	sort.Slice(l, func(i, j int) bool { return l[i].v > l[j].v })
	out := map[string]int{}
	for i, e := range l {
		if i >= n {
			break
		}
		out[e.k] = e.v
	}
	return out
}

func keys(m map[string]*Finding) []string {
	var r []string
	for k := range m {
		r = append(r, k)
	}
	sort.Strings(r)
	return r
}

// RunProgram executes one whole program in a worker and returns its failure (nil = passed).
func RunProgram(pool *par.Pool, scope, tier string, idx int, prog []apix.Op) (out *apix.Fail, notes []string) {
	if len(prog) == 0 {
		return nil, nil
	}
	job, _ := json.Marshal(hx.Job{Scope: scope, Tier: tier, Idx: idx, Prog: prog, Mode: "run"})
	// the exploration's deadline must not apply here: a skipped re-run would look like a passing one
	saved, savedSkipped := pool.Deadline, pool.Skipped
	pool.Deadline = time.Time{}
	defer func() { pool.Deadline, pool.Skipped = saved, savedSkipped }()
	answered := false
	defer func() {
		if !answered {
			out = &apix.Fail{Kind: "harness", At: -1, Msg: "re-run produced no answer"}
		}
	}()
	_ = pool.Run([][]byte{job}, func(r par.Result) {
		answered = true
		if r.Died || r.Hung {
			out = &apix.Fail{Kind: "crash", At: -1, Msg: "worker died or hung"}
			return
		}
		var res hx.Res
		if err := json.Unmarshal(r.Out, &res); err != nil || len(res.Succ) == 0 {
			out = &apix.Fail{Kind: "harness", At: -1, Msg: "bad answer " + res.Err}
			return
		}
		out = res.Succ[0].Fail
		notes = res.Succ[0].Notes
	})
	return out, notes
}

// GoTest renders a violation as a self-contained Go test over the public API only: it replays the seed program and
// the failing program without any of this machinery and logs what every call returns and the final content, to be
// compared with the expectation recorded in the replay file ("fail").
func GoTest(v *hx.Violation, tier string) string {
	var sb strings.Builder
	lit := func(ops []apix.Op) {
		for _, o := range ops {
			fmt.Fprintf(&sb, "\t{K: %q, P: %#v, Key: %q, V: %q, N: %d, D: %#v},\n", o.K, o.P, o.Key, o.V, o.N, o.D)
		}
	}
	fmt.Fprintf(&sb, `// Replay of a violation found by /verif (scope %s). Copy into the bbolt repository root and run:
//   go test -run TestVerifReplay -v .
// Expected divergence: %s
package bbolt_test

import (
	"fmt"
	"path/filepath"
	"strings"
	"testing"

	bolt "go.etcd.io/bbolt"
)

type vop struct {
	K   string
	P   []string
	Key string
	V   string
	N   int
	D   []string
}

var vSeed = []vop{
`, v.Scope, strings.ReplaceAll(v.Fail.Error(), "\n", " "))
	lit(hx.Scopes(v.Scope, tier)[v.Idx].Seed.Prog)
	sb.WriteString("}\n\nvar vProg = []vop{\n")
	lit(v.Prog)
	fmt.Fprintf(&sb, `}

func TestVerifReplay(t *testing.T) {
	ps := %d
	opt := &bolt.Options{PageSize: ps, NoFreelistSync: %v, NoGrowSync: %v, InitialMmapSize: %d, FreelistType: bolt.FreelistType(%q)}
	if opt.FreelistType == "" {
		opt.FreelistType = bolt.FreelistArrayType
	}
	db, err := bolt.Open(filepath.Join(t.TempDir(), "db"), 0600, opt)
	if err != nil {
		t.Fatal(err)
	}
	defer db.Close()
	stamp := 0
	val := func(class string) []byte {
		stamp++
		st := fmt.Sprintf("%%s%%07d", class, stamp)
		n := map[string]int{"e": 0, "s": len(st), "M": ps * 3 / 10, "X": ps * 5 / 2, "Y": ps*5 + 17}[class]
		return []byte(strings.Repeat(st, n/len(st)+1))[:n]
	}
	key := func(k string) []byte {
		if strings.HasPrefix(k, "L") && len(k) < ps/3 {
			return []byte(k + strings.Repeat("_", ps/3-len(k)))
		}
		return []byte(k)
	}
	var tx *bolt.Tx
	readers := map[int]*bolt.Tx{}
	bucket := func(p []string) *bolt.Bucket {
		var b *bolt.Bucket
		for i, n := range p {
			if i == 0 {
				b = tx.Bucket(key(n))
			} else if b != nil {
				b = b.Bucket(key(n))
			}
		}
		return b
	}
	run := func(ops []vop) {
		for i, o := range ops {
			var res interface{}
			switch o.K {
			case "beginW":
				tx, err = db.Begin(true)
				res = err
			case "commit":
				res = tx.Commit()
			case "rollback":
				res = tx.Rollback()
			case "beginR":
				readers[o.N], err = db.Begin(false)
				res = err
			case "closeR":
				res = readers[o.N].Rollback()
			case "reopen":
				t.Log("reopen: close and open again with the options recorded in the replay file")
			default:
				b := bucket(o.P)
				if len(o.P) > 0 && b == nil {
					res = "no such bucket"
					break
				}
				switch o.K {
				case "put":
					res = b.Put(key(o.Key), val(o.V))
				case "del":
					res = b.Delete(key(o.Key))
				case "get":
					res = fmt.Sprintf("%%d bytes", len(b.Get(key(o.Key))))
				case "mkb":
					if b == nil {
						_, err = tx.CreateBucket(key(o.Key))
					} else {
						_, err = b.CreateBucket(key(o.Key))
					}
					res = err
				case "mkbi":
					if b == nil {
						_, err = tx.CreateBucketIfNotExists(key(o.Key))
					} else {
						_, err = b.CreateBucketIfNotExists(key(o.Key))
					}
					res = err
				case "delb":
					if b == nil {
						res = tx.DeleteBucket(key(o.Key))
					} else {
						res = b.DeleteBucket(key(o.Key))
					}
				case "mvb":
					res = tx.MoveBucket(key(o.Key), b, bucket(o.D))
				case "seqset":
					res = b.SetSequence(uint64(o.N))
				case "seqnext":
					n, e := b.NextSequence()
					res = fmt.Sprint(n, e)
				case "fill":
					for j := 0; j < o.N; j++ {
						if e := b.Put(key(fmt.Sprintf("%%s%%03d", o.Key, j)), val(o.V)); e != nil {
							res = e
						}
					}
				case "drain":
					var ks [][]byte
					_ = b.ForEach(func(k, v []byte) error {
						if v != nil {
							ks = append(ks, append([]byte{}, k...))
						}
						return nil
					})
					for _, k := range ks {
						_ = b.Delete(k)
					}
				default:
					res = "operation not replayable through the public API alone: " + o.K
				}
			}
			t.Logf("%%2d %%-8s /%%s %%s -> %%v", i, o.K, strings.Join(o.P, "/"), o.Key, res)
		}
	}
	run(vSeed)
	run(vProg)
	if tx != nil {
		_ = tx.Rollback()
	}
	_ = db.View(func(rtx *bolt.Tx) error {
		var dump func(b *bolt.Bucket, ind string)
		dump = func(b *bolt.Bucket, ind string) {
			_ = b.ForEach(func(k, v []byte) error {
				if v == nil {
					t.Logf("%%s%%.12q/ (seq %%d)", ind, k, b.Bucket(k).Sequence())
					dump(b.Bucket(k), ind+"  ")
				} else {
					t.Logf("%%s%%.12q = %%d bytes", ind, k, len(v))
				}
				return nil
			})
		}
		return rtx.ForEach(func(n []byte, b *bolt.Bucket) error { t.Logf("%%q/ (seq %%d)", n, b.Sequence()); dump(b, "  "); return nil })
	})
}
`, v.Cfg.PageSize, v.Cfg.NoFreelistSync, v.Cfg.NoGrowSync, v.Cfg.InitialMmapSize, v.Cfg.Freelist)
	return sb.String()
}

// JobFuncs run a single job in-process (debugging / replay): kind -> func(job JSON) result JSON.
var JobFuncs = map[string]func([]byte) []byte{}

// WorkerKinds are additional worker entry points registered by checks.
var WorkerKinds = map[string]func(){}

// Replay re-executes a replay artefact of an hx based check.
func Replay(path string) int {
	b, err := os.ReadFile(path)
	if err != nil {
		fmt.Fprintln(os.Stderr, err)
		return 2
	}
	var art struct {
		Property string    `json:"property"`
		Scope    string    `json:"scope"`
		Tier     string    `json:"tier"`
		Idx      int       `json:"idx"`
		Prog     []apix.Op `json:"program"`
	}
	if err := json.Unmarshal(b, &art); err != nil {
		fmt.Fprintln(os.Stderr, err)
		return 2
	}
	if art.Scope == "" {
		var m map[string]interface{}
		_ = json.Unmarshal(b, &m)
		if m["engine"] == "mc" {
			defer hx.CleanWorkDir()
			return ReplayMC(m)
		}
		// artefacts of the dedicated sweeps: the job that failed is re-executed in this process
		if eng, _ := m["engine"].(string); eng != "" && JobFuncs[eng] != nil && (m["job"] != nil) {
			defer hx.CleanWorkDir()
			jb, _ := json.Marshal(m["job"])
			out := JobFuncs[eng](jb)
			var r struct {
				Fail string `json:"fail"`
				Err  string `json:"err"`
			}
			_ = json.Unmarshal(out, &r)
			if r.Fail != "" {
				fmt.Printf("reproduced: %s\n", r.Fail)
				return 1
			}
			if r.Err != "" {
				fmt.Println("harness error:", r.Err)
				return 2
			}
			fmt.Println("job passes (for a job covering several cases: none of them fails)")
			return 0
		}
		fmt.Fprintf(os.Stderr, "replay artefact of engine %v: re-run the check itself (the artefact records the failing case in full)\n", m["engine"])
		return 2
	}
	if os.Getenv("VERIF_EXPAND") != "" {
		res := hx.Expand(hx.Job{Scope: art.Scope, Tier: art.Tier, Idx: art.Idx, Prog: art.Prog})
		fmt.Println("err:", res.Err)
		for _, s := range res.Succ {
			fmt.Printf("%-40s key=%s end=%v fail=%v notes=%v obs=%s\n", s.Op.String(), s.Key, s.End, s.Fail, s.Notes, s.Obs)
		}
		return 0
	}
	res := hx.Expand(hx.Job{Scope: art.Scope, Tier: art.Tier, Idx: art.Idx, Prog: art.Prog, Mode: "run"})
	if n, _ := strconv.Atoi(os.Getenv("VERIF_REPLAY_AGAIN")); n > 0 {
		// debugging aid: the same program again in the same process (must give the same answer)
		for i := 0; i < n; i++ {
			r2 := hx.Expand(hx.Job{Scope: art.Scope, Tier: art.Tier, Idx: art.Idx, Prog: art.Prog, Mode: "run"})
			fmt.Printf("again %d: err=%q fail=%v\n", i+1, r2.Err, r2.Succ[0].Fail)
		}
	}
	hx.CleanWorkDir()
	if res.Err != "" {
		fmt.Println("harness error:", res.Err)
		return 2
	}
	if f := res.Succ[0].Fail; f != nil {
		fmt.Printf("reproduced: %s\nnotes: %v\n", f.Error(), res.Succ[0].Notes)
		return 1
	}
	fmt.Println("program passes")
	return 0
}

// subHX runs hx scopes as part of another check and merges the counts into cov; returns violation replay paths.
func subHX(prop string, scopes []string, tier string, cov map[string]interface{}, quick, thorough time.Duration) []string {
	dl := quick
	if tier == "thorough" {
		dl = thorough
	}
	deadline := time.Now().Add(dl)
	pool := par.NewPool(Workers(), "worker", "hx")
	// per-job limit: only a backstop against a call that never returns (expansions take milliseconds to seconds; the
	// generous value keeps a slow, loaded machine from ever turning a long job into a "hang")
	pool.Timeout = 15 * time.Minute
	defer pool.Close()
	var viols []string
	knownSeen := map[string]*Finding{}
	defer func() {
		for _, id := range keys(knownSeen) {
			fmt.Printf("KNOWN-FINDING: property=%s %s: %s\n", prop, id, knownSeen[id].What)
		}
	}()
	for si, name := range scopes {
		scopeDeadline := deadline
		if left := time.Until(deadline); left > 0 {
			scopeDeadline = time.Now().Add(left / time.Duration(len(scopes)-si))
		}
		classify := func(v *hx.Violation) string {
			if f := MatchFinding(prop, v.Notes, v.Fail.Kind, v.Fail.Msg); f != nil {
				knownSeen[f.ID] = f
				return f.ID
			}
			return ""
		}
		onViol := func(v *hx.Violation) {
			if len(viols) >= 5 {
				return
			}
			art := map[string]interface{}{"property": prop, "scope": v.Scope, "tier": tier, "idx": v.Idx, "seed": v.Seed, "cfg": v.Cfg,
				"program": v.Prog, "program_text": apix.ProgString(v.Prog), "fail": v.Fail, "notes": v.Notes}
			p := evid.Replay(prop, art)
			viols = append(viols, p)
			evid.Violation(prop, p)
			fmt.Printf("  %s\n  program: %s\n", v.Fail.Error(), apix.ProgString(v.Prog))
		}
		st := hx.Explore(pool, name, tier, scopeDeadline, classify, onViol)
		cov["hx_"+name] = map[string]interface{}{"states": st.States, "transitions": st.Transitions, "max_depth": st.MaxDepth,
			"exhaustive": st.Exhaustive, "caps_hit": st.Capped, "known_finding_hits": st.Known, "harness_errors": st.Errors, "samples": st.Samples}
		if s, ok := cov["states"].(int); ok {
			cov["states"] = s + st.States
		}
		if s, ok := cov["transitions"].(int); ok {
			cov["transitions"] = s + st.Transitions
		}
		if s, ok := cov["traces_validated_against_impl"].(int); ok {
			cov["traces_validated_against_impl"] = s + st.Transitions
		}
		if !st.Exhaustive || len(st.Errors) > 0 {
			cov["exhaustive"] = false
		}
		fmt.Printf("%s %s: scope %s: states=%d transitions=%d depth=%d exhaustive=%v errors=%d\n", prop, tier, name, st.States, st.Transitions, st.MaxDepth, st.Exhaustive, len(st.Errors))
		for i, e := range st.Errors {
			if i < 3 {
				fmt.Fprintln(os.Stderr, "harness error:", e)
			}
		}
	}
	return viols
}
