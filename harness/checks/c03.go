package checks

import (
	"fmt"
	"os"
	"os/exec"
	"path/filepath"
	"strconv"
	"strings"
	"time"

	"go.etcd.io/bbolt/zverif/evid"

	bolt "go.etcd.io/bbolt"
	"go.etcd.io/bbolt/zverif/apix"
	"go.etcd.io/bbolt/zverif/mc"
	"go.etcd.io/bbolt/zverif/vsync"
)

func parseParam(p string) (ps int, flt string) {
	ps, flt = 1024, "array"
	for _, f := range strings.Split(p, ",") {
		switch {
		case f == "hashmap" || f == "array":
			flt = f
		case strings.HasPrefix(f, "ps"):
			ps, _ = strconv.Atoi(f[2:])
		}
	}
	return
}

// u builds a C03 driver from thread bodies.
func uDriver(threads map[string]func(e *cenv), order []string) func(param string) mc.Driver {
	return func(param string) mc.Driver {
		ps, flt := parseParam(param)
		return func(s *vsync.Session) mc.Outcome {
			e, err := openEnv(s, ps, flt, 0, nil)
			if err != nil {
				return mc.Outcome{Fail: "open: " + err.Error()}
			}
			for _, name := range order {
				f := threads[name]
				vsync.GoNamed(name, func() { f(e) })
			}
			vsync.Join()
			e.checkSerial(e.finalState())
			e.close()
			return e.outcome()
		}
	}
}

func init() {
	mc.Registry["u1"] = uDriver(map[string]func(e *cenv){
		"A": func(e *cenv) { e.update("A", []string{"x", "y"}, "ok") },
		"B": func(e *cenv) { e.update("B", []string{"x"}, "ok") },
		"C": func(e *cenv) { e.view("C", []string{"x", "y"}) },
	}, []string{"A", "B", "C"})
	mc.Registry["u2"] = uDriver(map[string]func(e *cenv){
		"A": func(e *cenv) { e.update("A", []string{"x"}, "err") },
		"B": func(e *cenv) { e.update("B", []string{"x", "y"}, "ok") },
		"C": func(e *cenv) { e.view("C", []string{"x", "y"}) },
	}, []string{"A", "B", "C"})
	mc.Registry["u3"] = uDriver(map[string]func(e *cenv){
		"A": func(e *cenv) { e.update("A", []string{"x"}, "panic") },
		"B": func(e *cenv) { e.update("B", []string{"x", "y"}, "ok"); e.view("B2", []string{"x", "y"}) },
	}, []string{"A", "B"})
	mc.Registry["u4"] = uDriver(map[string]func(e *cenv){
		"A": func(e *cenv) { e.manual("A", []string{"x"}, false) },
		"B": func(e *cenv) { e.update("B", []string{"x"}, "ok") },
		"C": func(e *cenv) { e.manual("C", []string{"x", "y"}, true) },
	}, []string{"A", "B", "C"})
	mc.Registry["u5"] = uDriver(map[string]func(e *cenv){
		"A": func(e *cenv) { e.update("A", []string{"x"}, "ok"); e.update("A2", []string{"y"}, "ok") },
		"B": func(e *cenv) { e.stats("B"); e.view("B2", []string{"x", "y"}); e.stats("B3") },
	}, []string{"A", "B"})
	mc.Registry["u7"] = uDriver(map[string]func(e *cenv){
		"A": func(e *cenv) { e.update("A", []string{"x"}, "iofail") },
		"B": func(e *cenv) { e.update("B", []string{"x", "y"}, "ok"); e.update("B2", []string{"y"}, "ok") },
		"C": func(e *cenv) { e.view("C", []string{"x", "y"}) },
	}, []string{"A", "B", "C"})
	mc.Registry["u6"] = func(param string) mc.Driver {
		ps, flt := parseParam(param)
		return func(s *vsync.Session) mc.Outcome {
			e, err := openEnv(s, ps, flt, 0, nil)
			if err != nil {
				return mc.Outcome{Fail: "open: " + err.Error()}
			}
			closed := false
			vsync.GoNamed("A", func() { e.update("A", []string{"x"}, "ok") })
			vsync.GoNamed("B", func() { e.view("B", []string{"x", "y"}) })
			vsync.GoNamed("C", func() {
				if err := e.db.Close(); err != nil {
					e.failf("Close: %v", err)
				}
				closed = true
				// everything after Close reports ErrDatabaseNotOpen
				if _, err := e.db.Begin(false); apix.ErrName(err) != "ErrDatabaseNotOpen" {
					e.failf("Begin(false) after Close: %v", err)
				}
				if _, err := e.db.Begin(true); apix.ErrName(err) != "ErrDatabaseNotOpen" {
					e.failf("Begin(true) after Close: %v", err)
				}
			})
			vsync.Join()
			_ = closed
			for _, r := range e.recs {
				if r.outcome != "commit" && r.outcome != "view" && r.outcome != "fail:ErrDatabaseNotOpen" {
					e.failf("%s: outcome %s while racing with Close", r.who, r.outcome)
				}
			}
			// reopen and check that exactly the committed updates are there
			db, err := bolt.Open(e.path, 0600, apix.Cfg{PageSize: ps, Freelist: flt}.Options())
			if err != nil {
				e.failf("reopen after Close: %v", err)
			} else {
				e.db = db
				e.checkSerial(e.finalState())
			}
			e.close()
			return e.outcome()
		}
	}
}

// manual runs Begin(true) by hand and either rolls back or commits.
func (e *cenv) manual(who string, keys []string, commit bool) *txrec {
	r := &txrec{who: who, kind: "B", reads: map[string]int{}, writes: map[string]int{}, start: e.tick(), id: -1}
	e.recs = append(e.recs, r)
	tx, err := e.db.Begin(true)
	if err != nil {
		r.outcome = "fail:" + apix.ErrName(err)
		r.end = e.tick()
		return r
	}
	e.active++
	if e.active > 1 {
		e.failf("%s: two write transactions open at the same time", who)
	}
	r.id = tx.ID()
	b := tx.Bucket([]byte("c"))
	for _, k := range keys {
		v := getInt(b, k)
		r.reads[k] = v
		vsync.Yield()
		_ = b.Put([]byte(k), []byte(strconv.Itoa(v+1)))
		r.writes[k] = v + 1
	}
	vsync.Yield()
	if e.active > 1 {
		e.failf("%s: two write transactions open at the same time", who)
	}
	e.active--
	if commit {
		if err := tx.Commit(); err != nil {
			r.outcome = "fail:" + apix.ErrName(err)
		} else {
			r.outcome = "commit"
		}
	} else {
		if err := tx.Rollback(); err != nil {
			e.failf("%s: Rollback: %v", who, err)
		}
		r.outcome = "rollback"
	}
	r.end = e.tick()
	return r
}

func (e *cenv) stats(who string) {
	st := e.db.Stats()
	if st.OpenTxN < 0 || st.TxN < 0 || st.FreePageN < 0 || st.PendingPageN < 0 {
		e.failf("%s: implausible Stats %+v", who, st)
	}
}

// C03: write transactions are serial, all-or-nothing, visible in commit order.
func C03(tier string) int {
	ps := []string{"array", "hashmap"}
	return RunMC(MCCheck{
		Prop: "C03", Level: "model_checking",
		Drivers: []MCDriver{
			{Name: "u1", Params: ps, Quick: 2, Thorough: 3},
			{Name: "u2", Params: ps, Quick: 2, Thorough: 3},
			{Name: "u3", Params: ps, Quick: 2, Thorough: 3},
			{Name: "u4", Params: ps[:1], Quick: 2, Thorough: 3},
			{Name: "u5", Params: ps[:1], Quick: 2, Thorough: 3},
			{Name: "u6", Params: ps[:1], Quick: 2, Thorough: 3},
			{Name: "u7", Params: ps, Quick: 2, Thorough: 3},
		},
		Rule: "stateless depth-first exploration of every schedule of 2-3 logical threads (Update (committing, returning an error, panicking, failing at its first sync) / View / manual Begin-Rollback-Commit / Stats / Close bodies on two colliding counter keys) with at most the stated number of preemptions; scheduling points before every lock acquire, after every release, at every channel/once operation and at every I/O call of the real code; each execution is judged by the serial-replay oracle (ids consecutive, every read explained by the serial order, failed bodies leave no trace, real-time order, single writer) and by the scheduler's deadlock verdict; a distinct case is a distinct observation log",
		Assumptions: []string{"data-race freedom is not decided by the cooperative scheduler: auxiliary free-running -race pass (aux_race_pass) covers the same driver bodies",
			"go memory model effects beyond sequential consistency are not modelled"},
		Quick: 100 * time.Second, Thorough: 10 * time.Minute,
		Extra: auxRace,
	}, tier)
}

func auxRace(tier string, cov map[string]interface{}) []string {
	mod, ov := os.Getenv("VERIF_MODFILE"), os.Getenv("VERIF_OVERLAY")
	if mod == "" || ov == "" {
		cov["aux_race_pass"] = "not run (harness started without ./run)"
		return nil
	}
	args := []string{"test", "-race", "-tags", "verif", "-modfile", mod, "-overlay", ov, "-count=1", "./racepass"}
	cmd := exec.Command("go", args...)
	cmd.Dir = filepath.Join(evid.Root(), "harness")
	out, err := cmd.CombinedOutput()
	text := string(out)
	switch {
	case strings.Contains(text, "DATA RACE"):
		p := evid.Replay("C03", map[string]interface{}{"property": "C03", "engine": "racepass", "cmd": "cd harness && go " + strings.Join(args, " "), "output": lastN(text, 6000)})
		cov["aux_race_pass"] = "DATA RACE reported by the free-running pass"
		evid.Violation("C03", p)
		fmt.Println("  the free-running -race pass reported a data race (see replay file)")
		return []string{p}
	case err != nil:
		cov["aux_race_pass"] = "could not be run: " + lastN(text, 300)
	default:
		cov["aux_race_pass"] = "free-running go test -race over Update/View/Batch/Stats/Begin/Rollback/WriteTo/Close bodies, both backends: no race reported"
	}
	return nil
}

func lastN(s string, n int) string {
	if len(s) > n {
		return s[len(s)-n:]
	}
	return s
}
