package checks

import (
	"fmt"
	"sort"

	"go.etcd.io/bbolt/zverif/apix"
	"go.etcd.io/bbolt/zverif/boltfmt"
	"go.etcd.io/bbolt/zverif/hx"
	"go.etcd.io/bbolt/zverif/refmodel"
)

func op(k string, p []string, key, v string) apix.Op { return apix.Op{K: k, P: p, Key: key, V: v} }

func P(s ...string) []string { return s }

var (
	beginW   = apix.Op{K: "beginW"}
	commit   = apix.Op{K: "commit"}
	rollback = apix.Op{K: "rollback"}
)

// Seeds: non-initial start states, each built through the API (and itself checked while being built).
var Seeds = map[string]hx.Seed{
	"empty":      {Name: "empty"},
	"inline":     {Name: "inline", Prog: []apix.Op{beginW, op("mkb", nil, "p", ""), op("put", P("p"), "a", "s"), op("put", P("p"), "b", "s"), {K: "seqset", P: P("p"), N: 7}, commit}},
	"leaf":       {Name: "leaf", Prog: []apix.Op{beginW, op("mkb", nil, "p", ""), op("put", P("p"), "a", "M"), op("put", P("p"), "b", "M"), op("put", P("p"), "c", "s"), commit}},
	"twolevel":   {Name: "twolevel", Prog: []apix.Op{beginW, op("mkb", nil, "p", ""), {K: "fill", P: P("p"), Key: "k", V: "M", N: 9}, op("put", P("p"), "a", "s"), commit}},
	"threelevel": {Name: "threelevel", Prog: []apix.Op{beginW, op("mkb", nil, "p", ""), {K: "fill", P: P("p"), Key: "L", V: "s", N: 14}, op("put", P("p"), "a", "s"), commit}},
	"overflow":   {Name: "overflow", Prog: []apix.Op{beginW, op("mkb", nil, "p", ""), op("put", P("p"), "a", "X"), op("put", P("p"), "b", "X"), op("put", P("p"), "c", "s"), commit}},
	"nested": {Name: "nested", Prog: []apix.Op{beginW, op("mkb", nil, "p", ""), op("mkb", P("p"), "q", ""), {K: "fill", P: P("p", "q"), Key: "k", V: "M", N: 5},
		op("mkb", P("p", "q"), "p", ""), op("put", P("p", "q", "p"), "a", "s"), op("mkb", P("p", "q"), "q", ""), {K: "fill", P: P("p", "q", "q"), Key: "k", V: "M", N: 5},
		op("mkb", nil, "q", ""), op("put", P("q"), "a", "s"), {K: "seqset", P: P("p", "q"), N: 3}, commit}},
	// a free list longer than one page (more than 126 free ids at page size 1024): the freelist itself has overflow pages
	"bigfree": {Name: "bigfree", Prog: []apix.Op{beginW, op("mkb", nil, "p", ""), {K: "fill", P: P("p"), Key: "k", V: "M", N: 420}, commit,
		beginW, {K: "drain", P: P("p")}, op("put", P("p"), "a", "s"), commit,
		// one more small commit: the freelist is rewritten once the drained pages have been released, which moves it to
		// the lowest free pages - where the next commit's allocations look first
		beginW, op("put", P("p"), "b", "s"), commit}},
	// giant keys (0.7 page each): every leaf and every branch page holding them carries overflow pages, in a top-level and
	// in a nested bucket
	"bigkeys": {Name: "bigkeys", Prog: []apix.Op{beginW, op("mkb", nil, "p", ""), {K: "fill", P: P("p"), Key: "G", V: "s", N: 7}, op("put", P("p"), "a", "s"),
		{K: "fill", P: P("p"), Key: "W", V: "s", N: 3}, op("mkb", P("p"), "q", ""), {K: "fill", P: P("p", "q"), Key: "G", V: "s", N: 5}, {K: "seqset", P: P("p", "q"), N: 2}, commit}},
	// bucket names and keys that collide under naive path flattening: zero bytes, separators, one name a prefix of another
	"oddnames": {Name: "oddnames", Prog: []apix.Op{beginW, op("mkb", nil, "p", ""), op("mkb", P("p"), "q", ""), op("put", P("p", "q"), "a", "s"), op("put", P("p", "q"), "b", "M"),
		op("mkb", nil, "p\x00q", ""), op("put", P("p\x00q"), "a", "s"), op("put", P("p\x00q"), "c", "s"), op("mkb", P("p\x00q"), "r", ""), op("put", P("p\x00q", "r"), "d", "s"),
		op("mkb", nil, "p/q", ""), op("put", P("p/q"), "e", "s"), op("mkb", P("p"), "q\x00", ""), op("put", P("p", "q\x00"), "f", "s"), op("mkb", P("p", "q"), "r", ""), op("put", P("p", "q", "r"), "g", "M"),
		op("mkb", nil, "pq", ""), op("put", P("pq"), "h\x00", "s"), op("put", P("pq"), "h", "s"), {K: "seqset", P: P("p\x00q"), N: 5}, commit}},
	// everything above the live pages is one long free run (this was called "freeruns" until the structural expectations
	// showed it has a single run)
	"allfree": {Name: "allfree", Prog: []apix.Op{beginW, op("mkb", nil, "p", ""), {K: "fill", P: P("p"), Key: "k", V: "M", N: 12}, commit,
		beginW, op("mkb", nil, "q", ""), {K: "fill", P: P("q"), Key: "k", V: "X", N: 3}, commit,
		beginW, {K: "drain", P: P("p")}, commit, beginW, op("put", P("p"), "a", "s"), op("delb", nil, "q", ""), commit}},
	// at least three separate runs of free pages: five paged buckets are laid out one after the other, the second and the
	// fourth are deleted, and one more commit releases their pages (the churn of root / freelist pages adds a low run)
	"freeruns": {Name: "freeruns", Prog: []apix.Op{beginW, op("mkb", nil, "p", ""), {K: "fill", P: P("p"), Key: "k", V: "M", N: 6}, commit,
		beginW, op("mkb", nil, "q", ""), {K: "fill", P: P("q"), Key: "k", V: "X", N: 3}, commit,
		beginW, op("mkb", nil, "r", ""), {K: "fill", P: P("r"), Key: "k", V: "M", N: 6}, commit,
		beginW, op("mkb", nil, "s", ""), {K: "fill", P: P("s"), Key: "k", V: "X", N: 3}, commit,
		beginW, op("mkb", nil, "t", ""), {K: "fill", P: P("t"), Key: "k", V: "M", N: 6}, commit,
		beginW, op("delb", nil, "q", ""), op("delb", nil, "s", ""), commit,
		beginW, op("put", P("p"), "a", "s"), commit}},
}

// seedExpect: what each seed must structurally contain (checked every time a seed file is built).
func init() {
	branchOverBranch := func(st *boltfmt.State) bool {
		for _, p := range st.Pages {
			if p.Kind != boltfmt.UseBranch {
				continue
			}
			for _, c := range p.Children {
				if cp := st.Pages[c]; cp != nil && cp.Kind == boltfmt.UseBranch {
					return true
				}
			}
		}
		return false
	}
	branchWithOverflow := func(st *boltfmt.State) bool {
		for _, p := range st.Pages {
			if p.Kind == boltfmt.UseBranch && p.Overflow > 0 {
				return true
			}
		}
		return false
	}
	pagedBuckets := func(st *boltfmt.State) int {
		n := 0
		for _, p := range st.Pages {
			n += len(p.BucketRoots)
		}
		return n
	}
	freeRuns := func(st *boltfmt.State) int {
		ids := append([]uint64{}, st.FreeIDs...)
		sort.Slice(ids, func(i, j int) bool { return ids[i] < ids[j] })
		runs := 0
		for i, id := range ids {
			if i == 0 || ids[i-1]+1 != id {
				runs++
			}
		}
		return runs
	}
	set := func(name string, f func(st *boltfmt.State, ps int) string) {
		s := Seeds[name]
		s.Expect = f
		Seeds[name] = s
	}
	need := func(ok bool, what string) string {
		if ok {
			return ""
		}
		return what
	}
	set("inline", func(st *boltfmt.State, ps int) string { return need(st.NInline >= 1, "no inline bucket") })
	set("leaf", func(st *boltfmt.State, ps int) string {
		return need(st.NBranch == 0 && pagedBuckets(st) >= 1, "not a single paged leaf")
	})
	set("twolevel", func(st *boltfmt.State, ps int) string {
		return need(st.NBranch >= 1 && !branchOverBranch(st), "not a two-level tree")
	})
	set("threelevel", func(st *boltfmt.State, ps int) string {
		return need(branchOverBranch(st), "no branch page below a branch page")
	})
	set("overflow", func(st *boltfmt.State, ps int) string { return need(st.NOverflow >= 2, "no overflow pages") })
	set("nested", func(st *boltfmt.State, ps int) string {
		return need(pagedBuckets(st) >= 3 && st.NInline >= 1, "needs paged nested buckets and an inline one")
	})
	set("bigkeys", func(st *boltfmt.State, ps int) string {
		return need(branchWithOverflow(st), "no branch page with overflow pages")
	})
	set("bigfree", func(st *boltfmt.State, ps int) string {
		if ps != 1024 || st.Meta.Freelist == boltfmt.NoFreelist {
			return "" // the list only outgrows a page at 1 KiB pages (and only a persisted list occupies pages)
		}
		return need(len(st.FLPages) >= 2, "freelist fits one page")
	})
	set("freeruns", func(st *boltfmt.State, ps int) string {
		if st.Meta.Freelist == boltfmt.NoFreelist {
			return ""
		}
		return need(freeRuns(st) >= 3, fmt.Sprintf("%d free runs, 3 intended", freeRuns(st)))
	})
}

// bucketPaths lists the bucket paths existing in the model, up to the given depth, restricted to the names.
func bucketPaths(x *apix.Exec, m *refmodel.Node, names []string, depth int) [][]string {
	var out [][]string
	var rec func(n *refmodel.Node, path []string)
	rec = func(n *refmodel.Node, path []string) {
		if len(path) >= depth {
			return
		}
		for _, nm := range names {
			e := n.Ent[string(x.KeyBytes(nm))]
			if e != nil && e.Sub != nil {
				p := append(append([]string{}, path...), nm)
				out = append(out, p)
				rec(e.Sub, p)
			}
		}
	}
	rec(m, nil)
	return out
}

// txEnd returns the operations that end a write transaction.
func txEnd() []apix.Op { return []apix.Op{commit, rollback} }

// flatAlphabet: S1 — puts, deletes, gets of colliding keys with all value classes in bucket /p.
func flatAlphabet(keys, classes []string, macros bool) func(x *apix.Exec, t *hx.Track, left int) []apix.Op {
	return func(x *apix.Exec, t *hx.Track, left int) []apix.Op {
		if left <= 0 {
			return nil
		}
		if x.W == nil {
			if left < 2 {
				return nil
			}
			return []apix.Op{beginW}
		}
		if left == 1 {
			return txEnd()
		}
		ops := txEnd()
		pp := P("p")
		if x.WM.Resolve(pp) == nil {
			ops = append(ops, op("mkb", nil, "p", ""))
			return ops
		}
		for _, k := range keys {
			for _, c := range classes {
				ops = append(ops, op("put", pp, k, c))
			}
			ops = append(ops, op("del", pp, k, ""))
		}
		ops = append(ops, op("get", pp, keys[0], ""), op("cdel", pp, keys[0], ""))
		if macros {
			ops = append(ops, apix.Op{K: "fill", P: pp, Key: "k", V: "M", N: 9}, apix.Op{K: "drain", P: pp}, apix.Op{K: "thin", P: pp, N: 3}, apix.Op{K: "thin", P: pp, N: 2})
			ops = append(ops, apix.Op{K: "seqnext", P: pp}, apix.Op{K: "seqset", P: pp, N: 9})
		}
		return ops
	}
}

// nestedAlphabet: S2 — create / createIfNotExists / delete / move buckets over paths of the names, puts and
// sequences at each level, type clashes.
func nestedAlphabet(names []string, depth int, moves bool) func(x *apix.Exec, t *hx.Track, left int) []apix.Op {
	return func(x *apix.Exec, t *hx.Track, left int) []apix.Op {
		if left <= 0 {
			return nil
		}
		if x.W == nil {
			if left < 2 {
				return nil
			}
			return []apix.Op{beginW}
		}
		if left == 1 {
			return txEnd()
		}
		ops := txEnd()
		paths := bucketPaths(x, x.WM, names, depth)
		all := append([][]string{nil}, paths...)
		for _, bp := range all {
			for _, nm := range names {
				if len(bp) < depth {
					ops = append(ops, op("mkb", bp, nm, ""), op("mkbi", bp, nm, ""))
				}
				ops = append(ops, op("delb", bp, nm, ""))
				if moves {
					for _, dp := range all {
						if len(dp) < depth {
							ops = append(ops, apix.Op{K: "mvb", P: bp, Key: nm, D: append([]string{}, dp...)})
						}
					}
				}
			}
			if len(bp) > 0 {
				ops = append(ops, op("put", bp, "a", "s"), op("put", bp, "r", "s"), op("put", bp, names[0], "s"), op("del", bp, "a", ""), apix.Op{K: "seqnext", P: bp}, apix.Op{K: "seqset", P: bp, N: 9})
			}
		}
		return ops
	}
}

func cfgs(tier string) []apix.Cfg {
	c := []apix.Cfg{
		{PageSize: 1024, Freelist: "array"},
		{PageSize: 1024, Freelist: "hashmap"},
	}
	if tier == "thorough" {
		c = append(c, apix.Cfg{PageSize: 1024, Freelist: "hashmap", NoFreelistSync: true},
			apix.Cfg{PageSize: 4096, Freelist: "array"},
			apix.Cfg{PageSize: 1024, Freelist: "array", FillPercent: 1.0},
			apix.Cfg{PageSize: 1024, Freelist: "array", FillPercent: 0.1})
	}
	return c
}

func sortedSeedNames(names ...string) []string { sort.Strings(names); return names }

// mk builds scope instances for seeds x cfgs.
func mk(name string, seeds []string, cs []apix.Cfg, maxOps int, lvl int, en func(x *apix.Exec, t *hx.Track, left int) []apix.Op,
	boundary func(x *apix.Exec, kind string) *apix.Fail) []*hx.Scope {
	var out []*hx.Scope
	for _, s := range seeds {
		sd, ok := Seeds[s]
		if !ok {
			panic("unknown seed " + s)
		}
		for _, c := range cs {
			out = append(out, &hx.Scope{Name: fmt.Sprintf("%s[%s]", name, s), Seed: sd, Cfg: c, MaxOps: maxOps, CheckLvl: lvl, Enabled: en, Boundary: boundary})
		}
	}
	return out
}

// lifeAlphabet: S3 — write transactions with overwrite-heavy bodies interleaved with up to `readers` read
// transactions of different ages, rollbacks and reopenings.
func lifeAlphabet(readers int, bodies []apix.Op, reopen []apix.Cfg, maxTx int) func(x *apix.Exec, t *hx.Track, left int) []apix.Op {
	return func(x *apix.Exec, t *hx.Track, left int) []apix.Op {
		if left <= 0 {
			return nil
		}
		var ops []apix.Op
		nOpen := 0
		firstFree := -1
		for i := 0; i < readers; i++ {
			if x.Readers[i] != nil {
				nOpen++
				ops = append(ops, apix.Op{K: "closeR", N: i})
			} else if firstFree < 0 {
				firstFree = i
			}
		}
		if firstFree >= 0 && left >= 2 {
			ops = append(ops, apix.Op{K: "beginR", N: firstFree})
		}
		if x.W == nil {
			if left >= 2 && t.NTx < maxTx {
				ops = append(ops, beginW)
			}
			if nOpen == 0 && left >= 2 {
				for i := range reopen {
					c := reopen[i]
					ops = append(ops, apix.Op{K: "reopen", Cfg: &c})
				}
			}
			return ops
		}
		if left == 1 {
			return txEnd()
		}
		ops = append(ops, txEnd()...)
		if t.OpsInTx < 2 {
			ops = append(ops, bodies...)
		}
		return ops
	}
}

var lifeBodies = []apix.Op{
	op("put", P("p"), "a", "X"), op("put", P("p"), "b", "s"), op("del", P("p"), "a", ""),
	{K: "fill", P: P("p"), Key: "k", V: "M", N: 6}, {K: "drain", P: P("p")}, {K: "thin", P: P("p"), N: 3},
	op("delb", nil, "p", ""), // frees a whole paged bucket while the transaction is still being built
}
