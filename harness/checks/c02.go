package checks

import (
	"fmt"
	"sort"
	"strings"
	"time"

	bolt "go.etcd.io/bbolt"
	"go.etcd.io/bbolt/zverif/apix"
	"go.etcd.io/bbolt/zverif/hx"
	"go.etcd.io/bbolt/zverif/mc"
	"go.etcd.io/bbolt/zverif/vsync"
)

// content of bucket c as a canonical string (key=len:hash pairs), read through a transaction.
func dumpC(tx *bolt.Tx) (string, error) {
	b := tx.Bucket([]byte("c"))
	if b == nil {
		return "", fmt.Errorf("bucket c missing")
	}
	var sb strings.Builder
	var prev []byte
	err := b.ForEach(func(k, v []byte) error {
		if prev != nil && string(prev) >= string(k) {
			return fmt.Errorf("keys out of order")
		}
		prev = append(prev[:0], k...)
		fmt.Fprintf(&sb, "%s=%d:%x;", k, len(v), boltHash(v))
		return nil
	})
	return sb.String(), err
}

func boltHash(b []byte) uint32 {
	h := uint32(2166136261)
	for _, c := range b {
		h ^= uint32(c)
		h *= 16777619
	}
	return h
}

func modelDump(m map[string]string) string {
	var ks []string
	for k := range m {
		ks = append(ks, k)
	}
	sort.Strings(ks)
	var sb strings.Builder
	for _, k := range ks {
		fmt.Fprintf(&sb, "%s=%d:%x;", k, len(m[k]), boltHash([]byte(m[k])))
	}
	return sb.String()
}

// rwDriver: `readers` reader threads (the i-th begins after i yields so that ages differ) and one writer thread
// doing ntx page-recycling updates. versions[id] is recorded by the writer inside the body, before commit.
func rwDriver(readers, ntx, fill int, grow bool) func(param string) mc.Driver {
	return rwDriverOpt(readers, ntx, fill, grow, false, 0)
}

// rwDriverOpt: nfs = open with NoFreelistSync; panicAt = the writer's panicAt-th update panics after its edits (0: none).
func rwDriverOpt(readers, ntx, fill int, grow bool, nfs bool, panicAt int) func(param string) mc.Driver {
	return func(param string) mc.Driver {
		ps, flt := parseParam(param)
		return func(s *vsync.Session) mc.Outcome {
			e, err := openEnv(s, ps, flt, fill, func(o *bolt.Options) { o.NoFreelistSync = nfs })
			if err != nil {
				return mc.Outcome{Fail: "open: " + err.Error()}
			}
			model := map[string]string{}
			_ = e.db.View(func(tx *bolt.Tx) error {
				return tx.Bucket([]byte("c")).ForEach(func(k, v []byte) error { model[string(k)] = string(v); return nil })
			})
			versions := map[int]string{e.id0: modelDump(model)}
			var obs []string
			vsync.GoNamed("W", func() {
				for t := 1; t <= ntx; t++ {
					t := t
					func() {
						if t == panicAt {
							defer func() {
								if r := recover(); r == nil || fmt.Sprint(r) != "boom" {
									e.failf("writer: expected the body's own panic, got %v", r)
								}
							}()
						}
						err := e.db.Update(func(tx *bolt.Tx) error {
							b := tx.Bucket([]byte("c"))
							m2 := map[string]string{}
							for k, v := range model {
								m2[k] = v
							}
							put := func(k, v string) {
								if err := b.Put([]byte(k), []byte(v)); err != nil {
									e.failf("put: %v", err)
								}
								m2[k] = v
							}
							put("x", fmt.Sprint(t))
							put(fmt.Sprintf("k%03d", t%3), strings.Repeat(fmt.Sprint(t%10), ps*3/10))
							if t%2 == 0 {
								_ = b.Delete([]byte("k001"))
								delete(m2, "k001")
							}
							if grow {
								for i := 0; i < 40; i++ {
									put(fmt.Sprintf("g%d_%03d", t, i), strings.Repeat("g", ps*3/10))
								}
							}
							if t == panicAt {
								panic("boom") // the edits above must leave no trace
							}
							versions[tx.ID()] = modelDump(m2)
							model = m2
							return nil
						})
						if err != nil {
							e.failf("writer update %d: %v", t, err)
						}
					}()
					obs = append(obs, fmt.Sprintf("W%d", t))
				}
			})
			for i := 0; i < readers; i++ {
				name := fmt.Sprintf("R%d", i)
				delay := i
				vsync.GoNamed(name, func() {
					for k := 0; k < delay; k++ {
						vsync.Yield()
					}
					tx, err := e.db.Begin(false)
					if err != nil {
						e.failf("%s: Begin: %v", name, err)
						return
					}
					id := tx.ID()
					want, ok := versions[id]
					if !ok {
						e.failf("%s: reader id %d names no version committed or being committed", name, id)
					}
					for round := 0; round < 3; round++ {
						got, err := dumpC(tx)
						if err != nil {
							e.failf("%s: dump: %v", name, err)
							break
						}
						if ok && got != want {
							e.failf("%s: reader of version %d, look %d: content differs from that version (snapshot not stable or hybrid)", name, id, round)
							break
						}
						vsync.Yield()
					}
					if tx.ID() != id {
						e.failf("%s: id changed", name)
					}
					obs = append(obs, fmt.Sprintf("%s@%d", name, id-e.id0))
					if err := tx.Rollback(); err != nil {
						e.failf("%s: Rollback: %v", name, err)
					}
				})
			}
			vsync.Join()
			// final content
			_ = e.db.View(func(tx *bolt.Tx) error {
				got, err := dumpC(tx)
				if err != nil || got != modelDump(model) {
					e.failf("final content differs from the model (%v)", err)
				}
				return nil
			})
			e.close()
			o := e.outcome()
			o.Obs = strings.Join(obs, " ")
			return o
		}
	}
}

func init() {
	mc.Registry["d1"] = rwDriver(1, 3, 6, false)
	mc.Registry["d2"] = rwDriver(2, 3, 6, false)
	mc.Registry["d3"] = rwDriver(1, 2, 60, true) // the commits outgrow the 32 KiB map: remap while a reader may be open
	mc.Registry["d4"] = rwDriver(2, 1, 6, false)
	mc.Registry["d5"] = rwPanicDriver
	hx.Registry["c02-life"] = func(tier string) []*hx.Scope {
		n, maxTx := 7, 3
		seeds := []string{"twolevel", "freeruns"}
		if tier == "thorough" {
			n, maxTx = 9, 4
			seeds = []string{"inline", "twolevel", "overflow", "freeruns"}
		}
		cs := cfgsAcct(tier)
		for i := range cs {
			cs[i].InitialMmapSize = 1 << 20 // no remap inside a single goroutine (documented deadlock); remap is covered by driver d3
		}
		scs := mk("c02-life", seeds, cs, n, 1, lifeAlphabet(3, lifeBodies, reopenCfgsBig(), maxTx), nil)
		for _, s := range scs {
			s.Setup = func(x *apix.Exec) { x.EnableMonitor(false) }
		}
		return scs
	}
}

// rwPanicDriver: like d1, but the writer's second of four updates panics (physical rollback path) and the
// database may run without a persisted freelist (param "nfs").
func rwPanicDriver(param string) mc.Driver {
	inner := rwDriverOpt(1, 4, 6, false, strings.Contains(param, "nfs"), 2)
	return inner(param)
}

// C02: a read transaction sees one immutable snapshot.
func C02(tier string) int {
	ps := []string{"array", "hashmap"}
	rc := RunMC(MCCheck{
		Prop: "C02", Level: "model_checking",
		Drivers: []MCDriver{
			{Name: "d1", Params: ps, Quick: 2, Thorough: 3},
			{Name: "d2", Params: ps, Quick: 2, Thorough: 2},
			{Name: "d3", Params: ps[:1], Quick: 1, Thorough: 2},
			{Name: "d4", Params: ps, Quick: 2, Thorough: 3},
			{Name: "d5", Params: []string{"array,nfs", "hashmap,nfs", "array"}, Quick: 2, Thorough: 3},
		},
		Rule:        "(b) stateless depth-first exploration of every schedule with at most the stated number of preemptions of reader threads (begin, three full dumps separated by yields, close) against a writer thread doing page-recycling (and, in d3, map-outgrowing) updates; scheduling points at every lock operation and every I/O call of the real code; oracle: each dump equals the version named by the reader's id, which must be a version committed (meta written) at that instant, and never changes. (a) explicit-state BFS over event orders (c02-life, reported under hx_*): up to 3 readers of different ages, writers with page-freeing bodies, rollbacks, reopen; after every writer event every open reader is re-dumped forwards and backwards and compared with its version, and the write monitor checks every write",
		Assumptions: []string{"reader-internal preemption is not explored: snapshot stability = private meta copy + no write into the snapshot's pages (write monitor, C06) + pinned mapping (DESIGN.md 4/C02)"},
		Quick:       60 * time.Second, Thorough: 10 * time.Minute,
		Extra: func(tier string, cov map[string]interface{}) []string {
			return subHX("C02", []string{"c02-life", "c02-fault"}, tier, cov, 70*time.Second, 8*time.Minute)
		},
	}, tier)
	return rc
}
