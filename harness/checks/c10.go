package checks

import (
	"fmt"
	"os"

	"go.etcd.io/bbolt/zverif/apix"
	"go.etcd.io/bbolt/zverif/evid"
	"go.etcd.io/bbolt/zverif/hx"
)

// steadyState is the bounded-growth form of C10's liveness clause: the same overwriting transaction repeated
// 12 times (single-page allocations only) must not move the high-water mark during the last third of the
// history; with a reader held open for the first half it may grow meanwhile and must stop growing afterwards.
func steadyState(tier string, cov map[string]interface{}) []string {
	var viols []string
	runs := 0
	for _, c := range cfgsAcct("thorough") {
		for _, withReader := range []bool{false, true} {
			path := apix.TempPath(hx.WorkDir())
			c.InitialMmapSize = 1 << 20 // the reader and the writer share one goroutine here: no remap may be needed
			x, f := apix.NewExec(path, c, nil)
			if f != nil {
				continue
			}
			x.CheckLvl = 1
			var hwms []uint64
			msg := ""
			prog := []apix.Op{beginW, op("mkb", nil, "p", ""), {K: "fill", P: P("p"), Key: "k", V: "s", N: 40}, commit}
			if f := x.Run(prog); f != nil {
				msg = f.Error()
			}
			for i := 0; i < 12 && msg == ""; i++ {
				if withReader && i == 0 {
					if f := x.Do(apix.Op{K: "beginR", N: 0}); f != nil {
						msg = f.Error()
					}
				}
				if withReader && i == 6 {
					if f := x.Do(apix.Op{K: "closeR", N: 0}); f != nil {
						msg = f.Error()
					}
				}
				tx := []apix.Op{beginW, op("put", P("p"), fmt.Sprintf("k%03d", (i*7)%40), "s"), op("put", P("p"), fmt.Sprintf("k%03d", (i*11+3)%40), "s"), commit}
				if f := x.Run(tx); f != nil {
					msg = f.Error()
					break
				}
				_, st, err := apix.DecodeFile(path, c.PageSize)
				if err != nil {
					msg = err.Error()
					break
				}
				hwms = append(hwms, st.Meta.Pgid)
			}
			x.Close()
			os.Remove(path)
			runs++
			if msg == "" && len(hwms) == 12 {
				for i := 9; i < 12; i++ {
					if hwms[i] != hwms[8] {
						msg = fmt.Sprintf("high-water mark still moving in the last third of a steady overwrite history: %v", hwms)
					}
				}
			}
			if msg != "" {
				p := evid.Replay("C10", map[string]interface{}{"property": "C10", "engine": "steady", "cfg": c, "with_reader": withReader, "msg": msg})
				viols = append(viols, p)
				evid.Violation("C10", p)
				fmt.Printf("  steady-state history (%s, reader for the first half: %v): %s\n", c.String(), withReader, msg)
			}
		}
	}
	cov["steady_state_histories"] = runs
	hx.CleanWorkDir()
	return viols
}
