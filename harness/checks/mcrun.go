package checks

import (
	"encoding/json"
	"fmt"
	"os"
	"sort"
	"time"

	"go.etcd.io/bbolt/zverif/evid"
	"go.etcd.io/bbolt/zverif/mc"
	"go.etcd.io/bbolt/zverif/par"
)

// MCDriver selects one driver variant and the bounds to run it with.
type MCDriver struct {
	Name     string
	Params   []string
	Quick    int // deviation bound
	Thorough int
	MapOrder bool
	Delay    bool // delay bounding instead of preemption bounding (see vsync.Session.DelayBound)
}

// MCCheck describes a check built on the stateless explorer.
type MCCheck struct {
	Prop        string
	Level       string
	Drivers     []MCDriver
	Rule        string
	Assumptions []string
	Quick       time.Duration
	Thorough    time.Duration
	Extra       func(tier string, cov map[string]interface{}) []string
}

// RunMC explores every driver variant with iterative deviation bounding.
func RunMC(c MCCheck, tier string) int {
	start := time.Now()
	LoadFindings()
	dl := c.Quick
	if tier == "thorough" {
		dl = c.Thorough
	}
	deadline := start.Add(dl)
	pool := par.NewPool(WorkersCPU(), "worker", "mc")
	defer pool.Close()
	var viols []string
	var errs []string
	known := map[string]*Finding{}
	per := map[string]interface{}{}
	totExec, totPoints, distinct := 0, 0, 0
	exhaustive := true
	var samples []string
	caps := ""
	for _, d := range c.Drivers {
		bound := d.Quick
		if tier == "thorough" {
			bound = d.Thorough
		}
		for _, p := range d.Params {
			key := d.Name + "/" + p
			completed := -1
			var last *mc.Total
			for b := 0; b <= bound; b++ {
				if time.Now().After(deadline) {
					exhaustive = false
					caps += fmt.Sprintf("%s: deadline before bound %d; ", key, b)
					break
				}
				t := mc.Explore(pool, d.Name, p, b, d.MapOrder, d.Delay, deadline)
				last = t
				errs = append(errs, t.Errs...)
				stop := false
				for _, v := range t.Viol {
					if f := MatchFinding(c.Prop, []string{v.Note}, v.Verdict, v.Msg); f != nil {
						known[f.ID] = f
						continue
					}
					// re-execute twice: must fail identically
					same := 0
					for k := 0; k < 2; k++ {
						if r := replayMC(pool, v, d.MapOrder, d.Delay); r != nil && r.Msg == v.Msg {
							same++
						}
					}
					art := map[string]interface{}{"property": c.Prop, "engine": "mc", "driver": v.Driver, "param": v.Param, "choices": v.Choices,
						"map_order": d.MapOrder, "delay_bound": d.Delay, "verdict": v.Verdict, "msg": v.Msg, "deviations": v.Devs, "reproduced": same}
					path := evid.Replay(c.Prop, art)
					if same < 2 {
						fmt.Printf("UNSTABLE: property=%s failure did not reproduce identically (%d/2): %s\n", c.Prop, same, path)
						errs = append(errs, "unstable failure "+path)
						continue
					}
					if len(viols) < 5 {
						viols = append(viols, path)
						evid.Violation(c.Prop, path)
						fmt.Printf("  driver %s/%s, %d deviation(s): %s\n", v.Driver, v.Param, v.Devs, v.Msg)
					}
					stop = true
				}
				if !t.Exhaustive {
					exhaustive = false
					caps += fmt.Sprintf("%s: bound %d capped (%s); ", key, b, t.Capped)
					break
				}
				if stop || len(t.Errs) > 0 {
					break
				}
				completed = b
			}
			if last != nil {
				totExec += last.Execs
				totPoints += last.Points
				distinct += len(last.Outcomes)
				if len(samples) < 8 {
					samples = append(samples, prefixEach(key+": ", last.Samples)...)
				}
				per[key] = map[string]interface{}{"deviation_bound_completed": completed, "schedules": last.Execs, "choice_points": last.Points,
					"max_points_per_execution": last.MaxPoints, "distinct_outcomes": len(last.Outcomes), "verdicts": last.Verdicts}
				fmt.Printf("%s %s: %s bound=%d schedules=%d outcomes=%d verdicts=%v (%.1fs)\n", c.Prop, tier, key, completed, last.Execs, len(last.Outcomes), last.Verdicts, time.Since(start).Seconds())
			}
		}
	}
	if len(samples) == 0 {
		samples = []string{"(no execution recorded)"}
	}
	cov := map[string]interface{}{
		"states": totExec, "transitions": totPoints, "traces_validated_against_impl": totExec,
		"evaluations": totExec, "distinct_nontrivial": distinct, "schedules": totExec, "rule": c.Rule, "samples": samples,
		"exhaustive": exhaustive && len(errs) == 0, "caps_hit": caps, "drivers": per, "harness_errors": errs,
		"known_findings_seen": keys(known),
	}
	if c.Extra != nil {
		viols = append(viols, c.Extra(tier, cov)...)
	}
	for _, id := range keys(known) {
		fmt.Printf("KNOWN-FINDING: property=%s %s: %s\n", c.Prop, id, known[id].What)
	}
	ev := &evid.Evidence{PropertyID: c.Prop, Tier: tier, Level: c.Level, Coverage: cov, Assumptions: c.Assumptions, Violations: len(viols)}
	if err := ev.Write(start); err != nil {
		fmt.Fprintln(os.Stderr, "evidence:", err)
		return 2
	}
	for i, e := range errs {
		if i < 5 {
			fmt.Fprintln(os.Stderr, "harness error:", e)
		}
	}
	if len(viols) > 0 {
		return 1
	}
	if len(errs) > 0 {
		return 2
	}
	fmt.Printf("%s %s: OK schedules=%d choice_points=%d distinct_outcomes=%d exhaustive=%v wall=%.1fs\n", c.Prop, tier, totExec, totPoints, distinct, exhaustive, time.Since(start).Seconds())
	return 0
}

func prefixEach(p string, l []string) []string {
	var r []string
	for _, s := range l {
		r = append(r, p+s)
	}
	sort.Strings(r)
	return r
}

func replayMC(pool *par.Pool, v mc.Violation, mapOrder, delay bool) *mc.Violation {
	job, _ := json.Marshal(mc.Job{Driver: v.Driver, Param: v.Param, Prefix: v.Choices, Replay: true, MapOrder: mapOrder, Delay: delay})
	var out *mc.Violation
	_ = pool.Run([][]byte{job}, func(r par.Result) {
		if r.Died || r.Hung {
			return
		}
		var res mc.Res
		if err := json.Unmarshal(r.Out, &res); err == nil && len(res.Viol) > 0 {
			out = &res.Viol[0]
		}
	})
	return out
}

// ReplayMC re-executes an mc replay artefact in this process.
func ReplayMC(art map[string]interface{}) int {
	var choices []int
	for _, c := range art["choices"].([]interface{}) {
		choices = append(choices, int(c.(float64)))
	}
	mo, _ := art["map_order"].(bool)
	dl, _ := art["delay_bound"].(bool)
	res := mc.Work(mc.Job{Driver: art["driver"].(string), Param: art["param"].(string), Prefix: choices, Replay: true, MapOrder: mo, Delay: dl})
	if res.Err != "" {
		fmt.Println("harness error:", res.Err)
		return 2
	}
	if len(res.Viol) > 0 {
		fmt.Printf("reproduced: %s\n", res.Viol[0].Msg)
		return 1
	}
	fmt.Println("execution passes:", res.Sample)
	return 0
}
