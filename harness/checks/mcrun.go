package checks

import (
	"encoding/json"
	"fmt"
	"os"
	"sort"
	"time"

	"go.etcd.io/bbolt/zverif/evid"
	"go.etcd.io/bbolt/zverif/mc"
	"go.etcd.io/bbolt/zverif/par"
)

// MCDriver selects one driver variant and the bounds to run it with.
type MCDriver struct {
	Name     string
	Params   []string
	Quick    int // deviation bound
	Thorough int
	MapOrder bool
	Delay    bool // delay bounding instead of preemption bounding (see vsync.Session.DelayBound)
}

// MCCheck describes a check built on the stateless explorer.
type MCCheck struct {
	Prop        string
	Level       string
	Drivers     []MCDriver
	Rule        string
	Assumptions []string
	Quick       time.Duration
	Thorough    time.Duration
	Extra       func(tier string, cov map[string]interface{}) []string
}

// RunMC explores every driver variant with iterative deviation bounding.
func RunMC(c MCCheck, tier string) int {
	start := time.Now()
	LoadFindings()
	dl := c.Quick
	if tier == "thorough" {
		dl = c.Thorough
	}
	deadline := start.Add(dl)
	pool := par.NewPool(WorkersCPU(), "worker", "mc")
	// shards carry the exploration deadline themselves; the per-job limit is only a backstop (a shard of a deep
	// bound may legitimately run for minutes)
	pool.Timeout = 30 * time.Minute
	defer pool.Close()
	var viols []string
	var errs []string
	known := map[string]*Finding{}
	per := map[string]interface{}{}
	totExec, totPoints, distinct := 0, 0, 0
	exhaustive := true
	var samples []string
	caps := ""
	extraCaps, extraExecs, extraPoints := "", 0, 0
	// explore runs driver d / parameter p with deviation bounds from..to (iteratively) until dl; it returns the last
	// bound completed and whether a violation or error ended it
	type progress struct {
		completed int
		last      *mc.Total
		stopped   bool
	}
	explore := func(d MCDriver, p string, from, to int, dl time.Time, optional bool) progress {
		key := d.Name + "/" + p
		pr := progress{completed: from - 1}
		for b := from; b <= to; b++ {
			if time.Now().After(dl) {
				if !optional {
					exhaustive = false
					caps += fmt.Sprintf("%s: deadline before bound %d; ", key, b)
				}
				break
			}
			t := mc.Explore(pool, d.Name, p, b, d.MapOrder, d.Delay, dl)
			errs = append(errs, t.Errs...)
			stop := false
			for _, v := range t.Viol {
				if f := MatchFinding(c.Prop, []string{v.Note}, v.Verdict, v.Msg); f != nil {
					known[f.ID] = f
					continue
				}
				// re-execute twice
				same, again := 0, 0
				for k := 0; k < 2; k++ {
					if r := replayMC(pool, v, d.MapOrder, d.Delay); r != nil {
						again++
						if r.Msg == v.Msg {
							same++
						}
					}
				}
				art := map[string]interface{}{"property": c.Prop, "engine": "mc", "driver": v.Driver, "param": v.Param, "choices": v.Choices,
					"map_order": d.MapOrder, "delay_bound": d.Delay, "verdict": v.Verdict, "msg": v.Msg, "deviations": v.Devs, "reproduced": same, "failed_again": again}
				path := evid.Replay(c.Prop, art)
				// the same choice list failing on every execution is a violation even if the wording differs between the runs;
				// a re-run that passes is nondeterminism the harness does not own: a harness error, never a violation
				if again < 2 {
					fmt.Printf("UNSTABLE: property=%s failure did not reproduce (%d/2 re-runs failed): %s\n", c.Prop, again, path)
					errs = append(errs, "unstable failure "+path)
					continue
				}
				if len(viols) < 5 {
					viols = append(viols, path)
					evid.Violation(c.Prop, path)
					fmt.Printf("  driver %s/%s, %d deviation(s): %s\n", v.Driver, v.Param, v.Devs, v.Msg)
				}
				stop = true
			}
			if !t.Exhaustive {
				if optional {
					// a capped optional bound still counts its executions, but the completed bound stays where it was
					pr.last = nil
					extraCaps += fmt.Sprintf("%s: bound %d not completed (%s, %d schedules run); ", key, b, t.Capped, t.Execs)
					extraExecs += t.Execs
					extraPoints += t.Points
				} else {
					pr.last = t
					exhaustive = false
					caps += fmt.Sprintf("%s: bound %d capped (%s); ", key, b, t.Capped)
				}
				break
			}
			pr.last = t
			if stop || len(t.Errs) > 0 {
				pr.stopped = true
				break
			}
			pr.completed = b
		}
		return pr
	}
	record := func(key string, pr progress) {
		last := pr.last
		per[key] = map[string]interface{}{"deviation_bound_completed": pr.completed, "schedules": last.Execs, "choice_points": last.Points,
			"max_points_per_execution": last.MaxPoints, "distinct_outcomes": len(last.Outcomes), "verdicts": last.Verdicts}
		fmt.Printf("%s %s: %s bound=%d schedules=%d outcomes=%d verdicts=%v (%.1fs)\n", c.Prop, tier, key, pr.completed, last.Execs, len(last.Outcomes), last.Verdicts, time.Since(start).Seconds())
	}
	type dp struct {
		d  MCDriver
		p  string
		pr progress
	}
	var all []*dp
	for _, d := range c.Drivers {
		bound := d.Quick
		if tier == "thorough" {
			bound = d.Thorough
		}
		for _, p := range d.Params {
			x := &dp{d: d, p: p}
			x.pr = explore(d, p, 0, bound, deadline, false)
			all = append(all, x)
			if x.pr.last != nil {
				record(d.Name+"/"+p, x.pr)
			}
		}
	}
	// thorough: what is left of the budget goes into one further deviation bound per driver, in turn (fair shares);
	// a bound that does not complete within its share is reported as attempted, the completed bound stays
	if tier == "thorough" && len(viols) == 0 && len(errs) == 0 {
		for i, x := range all {
			left := time.Until(deadline)
			if left < 20*time.Second || x.pr.stopped || x.pr.last == nil || x.pr.completed < 0 {
				continue
			}
			share := time.Now().Add(left / time.Duration(len(all)-i))
			pr := explore(x.d, x.p, x.pr.completed+1, x.pr.completed+1, share, true)
			if pr.last != nil && (pr.completed > x.pr.completed || pr.stopped) {
				x.pr = pr
				record(x.d.Name+"/"+x.p, pr)
			}
		}
	}
	for _, x := range all {
		if last := x.pr.last; last != nil {
			totExec += last.Execs
			totPoints += last.Points
			distinct += len(last.Outcomes)
			if len(samples) < 8 {
				samples = append(samples, prefixEach(x.d.Name+"/"+x.p+": ", last.Samples)...)
			}
		}
	}
	totExec += extraExecs
	totPoints += extraPoints
	if len(samples) == 0 {
		samples = []string{"(no execution recorded)"}
	}
	cov := map[string]interface{}{
		"states": totExec, "transitions": totPoints, "traces_validated_against_impl": totExec,
		"evaluations": totExec, "distinct_nontrivial": distinct, "schedules": totExec, "rule": c.Rule, "samples": samples,
		"exhaustive": exhaustive && len(errs) == 0, "caps_hit": caps, "optional_deeper_bounds_not_completed": extraCaps, "drivers": per, "harness_errors": errs,
		"known_findings_seen": keys(known),
	}
	if c.Extra != nil {
		viols = append(viols, c.Extra(tier, cov)...)
	}
	for _, id := range keys(known) {
		fmt.Printf("KNOWN-FINDING: property=%s %s: %s\n", c.Prop, id, known[id].What)
	}
	ev := &evid.Evidence{PropertyID: c.Prop, Tier: tier, Level: c.Level, Coverage: cov, Assumptions: c.Assumptions, Violations: len(viols)}
	if err := ev.Write(start); err != nil {
		fmt.Fprintln(os.Stderr, "evidence:", err)
		return 2
	}
	for i, e := range errs {
		if i < 5 {
			fmt.Fprintln(os.Stderr, "harness error:", e)
		}
	}
	if len(viols) > 0 {
		return 1
	}
	if len(errs) > 0 {
		return 2
	}
	fmt.Printf("%s %s: OK schedules=%d choice_points=%d distinct_outcomes=%d exhaustive=%v wall=%.1fs\n", c.Prop, tier, totExec, totPoints, distinct, exhaustive, time.Since(start).Seconds())
	return 0
}

func prefixEach(p string, l []string) []string {
	var r []string
	for _, s := range l {
		r = append(r, p+s)
	}
	sort.Strings(r)
	return r
}

func replayMC(pool *par.Pool, v mc.Violation, mapOrder, delay bool) *mc.Violation {
	job, _ := json.Marshal(mc.Job{Driver: v.Driver, Param: v.Param, Prefix: v.Choices, Replay: true, MapOrder: mapOrder, Delay: delay})
	var out *mc.Violation
	_ = pool.Run([][]byte{job}, func(r par.Result) {
		if r.Died || r.Hung {
			return
		}
		var res mc.Res
		if err := json.Unmarshal(r.Out, &res); err == nil && len(res.Viol) > 0 {
			out = &res.Viol[0]
		}
	})
	return out
}

// ReplayMC re-executes an mc replay artefact in this process.
func ReplayMC(art map[string]interface{}) int {
	var choices []int
	for _, c := range art["choices"].([]interface{}) {
		choices = append(choices, int(c.(float64)))
	}
	mo, _ := art["map_order"].(bool)
	dl, _ := art["delay_bound"].(bool)
	res := mc.Work(mc.Job{Driver: art["driver"].(string), Param: art["param"].(string), Prefix: choices, Replay: true, MapOrder: mo, Delay: dl})
	if res.Err != "" {
		fmt.Println("harness error:", res.Err)
		return 2
	}
	if len(res.Viol) > 0 {
		fmt.Printf("reproduced: %s\n", res.Viol[0].Msg)
		return 1
	}
	fmt.Println("execution passes:", res.Sample)
	return 0
}
