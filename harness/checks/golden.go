package checks

import (
	"bytes"
	"compress/gzip"
	"encoding/json"
	"fmt"
	"io"
	"os"
	"path/filepath"
	"sort"

	bolt "go.etcd.io/bbolt"
	"go.etcd.io/bbolt/zverif/apix"
	"go.etcd.io/bbolt/zverif/evid"
	"go.etcd.io/bbolt/zverif/hx"
	"go.etcd.io/bbolt/zverif/vsync"
)

// Golden files: written once by the pinned build (./run golden), committed under /verif/golden, and read back
// by every later build (C12: "files written by earlier builds of the same format open and read back identically").

type goldenIndex struct {
	Files []goldenEntry `json:"files"`
}

type goldenEntry struct {
	Name  string   `json:"name"`
	Seed  string   `json:"seed"`
	Cfg   apix.Cfg `json:"cfg"`
	Canon string   `json:"canon"` // canonical rendering of the content (refmodel.Canon)
	Txid  uint64   `json:"txid"`
	Size  int      `json:"size"`
}

func goldenDir() string { return filepath.Join(evid.Root(), "golden") }

func goldenCfgs() []apix.Cfg {
	return []apix.Cfg{
		{PageSize: 1024, Freelist: "array"}, {PageSize: 1024, Freelist: "hashmap", NoFreelistSync: true},
		{PageSize: 4096, Freelist: "hashmap"}, {PageSize: 4096, Freelist: "array", NoFreelistSync: true},
		{PageSize: 16384, Freelist: "array"},
	}
}

// GoldenWrite regenerates the corpus from the tree the harness was built against.
func GoldenWrite() int {
	_ = os.MkdirAll(goldenDir(), 0755)
	var idx goldenIndex
	var names []string
	for n := range Seeds {
		names = append(names, n)
	}
	sort.Strings(names)
	for _, sd := range names {
		for ci, c := range goldenCfgs() {
			sc := &hx.Scope{Seed: Seeds[sd], Cfg: c}
			data, model, err := hx.BuildSeedFull(sc)
			if err != nil {
				fmt.Fprintln(os.Stderr, err)
				return 2
			}
			name := fmt.Sprintf("%s-%d.db.gz", sd, ci)
			var buf bytes.Buffer
			zw := gzip.NewWriter(&buf)
			_, _ = zw.Write(data)
			_ = zw.Close()
			if err := os.WriteFile(filepath.Join(goldenDir(), name), buf.Bytes(), 0644); err != nil {
				fmt.Fprintln(os.Stderr, err)
				return 2
			}
			_, st, err := apix.DecodeBytes(data, c.PageSize)
			if err != nil {
				fmt.Fprintln(os.Stderr, err)
				return 2
			}
			idx.Files = append(idx.Files, goldenEntry{Name: name, Seed: sd, Cfg: c, Canon: model.Canon(), Txid: st.Meta.Txid, Size: len(data)})
		}
	}
	b, _ := json.MarshalIndent(idx, "", " ")
	if err := os.WriteFile(filepath.Join(goldenDir(), "index.json"), b, 0644); err != nil {
		return 2
	}
	hx.CleanWorkDir()
	fmt.Printf("golden: %d files written to %s\n", len(idx.Files), goldenDir())
	return 0
}

// goldenCheck reads every golden file with the current build.
func goldenCheck(tier string, cov map[string]interface{}) []string {
	b, err := os.ReadFile(filepath.Join(goldenDir(), "index.json"))
	if err != nil {
		cov["golden_files"] = "corpus missing: " + err.Error()
		return nil
	}
	var idx goldenIndex
	if err := json.Unmarshal(b, &idx); err != nil {
		cov["golden_files"] = "corpus index unreadable"
		return nil
	}
	var viols []string
	n := 0
	fail := func(e goldenEntry, msg string) {
		if len(viols) >= 5 {
			return
		}
		p := evid.Replay("C12", map[string]interface{}{"property": "C12", "engine": "golden", "file": e.Name, "msg": msg})
		viols = append(viols, p)
		evid.Violation("C12", p)
		fmt.Printf("  golden file %s: %s\n", e.Name, msg)
	}
	for _, e := range idx.Files {
		zb, err := os.ReadFile(filepath.Join(goldenDir(), e.Name))
		if err != nil {
			continue
		}
		zr, err := gzip.NewReader(bytes.NewReader(zb))
		if err != nil {
			continue
		}
		data, _ := io.ReadAll(zr)
		n++
		// the independent decoder still reads it (guards the corpus itself)
		_, st, err := apix.DecodeBytes(data, e.Cfg.PageSize)
		if err != nil || len(st.Problems) > 0 {
			fail(e, fmt.Sprintf("decoder: %v %v", err, st.Problems))
			continue
		}
		path := apix.TempPath(hx.WorkDir())
		_ = os.WriteFile(path, data, 0600)
		msg := func() (msg string) {
			defer func() {
				if r := recover(); r != nil {
					msg = fmt.Sprintf("panic: %v", r)
				}
			}()
			for _, ro := range []bool{true, false} {
				db, err := bolt.Open(path, 0600, apix.Cfg{Freelist: e.Cfg.Freelist, NoFreelistSync: e.Cfg.NoFreelistSync, ReadOnly: ro, PreLoad: true}.Options())
				if err != nil {
					return "does not open: " + err.Error()
				}
				m := ""
				_ = db.View(func(tx *bolt.Tx) error {
					got, err := apix.DumpTx(tx, apix.DumpOpts{Backward: true, Gets: true})
					if err != nil {
						m = err.Error()
						return nil
					}
					if got.Canon() != e.Canon {
						m = "content read back differs from what the pinned build recorded"
						return nil
					}
					for er := range vsync.RecvFrom(tx.Check()).Range() {
						if m == "" {
							m = "Tx.Check: " + er.Error()
						}
					}
					return nil
				})
				if m == "" && !ro {
					if err := db.Update(func(tx *bolt.Tx) error {
						bk, err := tx.CreateBucketIfNotExists([]byte("golden-followup"))
						if err != nil {
							return err
						}
						return bk.Put([]byte("k"), bytes.Repeat([]byte("v"), 3000))
					}); err != nil {
						m = "commit on the golden file: " + err.Error()
					}
				}
				db.Close()
				if m != "" {
					return m
				}
			}
			// after one more commit by the current build the independent decoder must still read it
			_, st2, err := apix.DecodeFile(path, e.Cfg.PageSize)
			if err != nil {
				return "after one more commit the file no longer decodes: " + err.Error()
			}
			if len(st2.Problems) > 0 {
				return "after one more commit: " + st2.Problems[0].String()
			}
			return ""
		}()
		os.Remove(path)
		if msg != "" {
			fail(e, msg)
		}
	}
	cov["golden_files"] = n
	if s, ok := cov["states"].(int); ok {
		cov["states"] = s + n
	}
	return viols
}
