package checks

import (
	"encoding/binary"
	"fmt"
	"os"

	bolt "go.etcd.io/bbolt"
	"go.etcd.io/bbolt/zverif/apix"
	"go.etcd.io/bbolt/zverif/boltfmt"
	"go.etcd.io/bbolt/zverif/evid"
	"go.etcd.io/bbolt/zverif/hx"
)

// bigFreelistFiles: the count convention of the freelist page (header count 0xFFFF => the first word is the real number
// of ids) on whole FILES. A version-2 file is encoded by hand from the published layout - an empty root leaf, both metas,
// and a freelist page listing n ids for n around 65535 - opened by the code under test with both backends, which must
// see exactly those ids as free; after one commit the file this build wrote is decoded by the independent reader again.
// (The in-memory half - Write/Read of the allocator alone - is part of C09.)
func bigFreelistFiles(tier string, cov map[string]interface{}) []string {
	var viols []string
	const ps = 1024
	ns := []int{65534, 65535, 65536}
	if tier == "thorough" {
		ns = []int{65533, 65534, 65535, 65536, 65537, 70001}
	}
	cases := 0
	fail := func(n int, flt, msg string) {
		p := evid.Replay("C12", map[string]interface{}{"property": "C12", "engine": "big-freelist-file", "ids": n, "backend": flt, "msg": msg})
		viols = append(viols, p)
		evid.Violation("C12", p)
		fmt.Printf("  hand-encoded version-2 file with %d free ids, %s backend: %s\n", n, flt, msg)
	}
	for _, n := range ns {
		for _, flt := range []string{"array", "hashmap"} {
			if len(viols) >= 3 {
				break
			}
			cases++
			// layout: 0,1 metas; 2 root leaf (empty); 3.. freelist (head + overflow); then n free pages; hwm right after
			words := n
			if n >= 0xFFFF {
				words = n + 1
			}
			flPages := (16 + 8*words + ps - 1) / ps
			firstFree := 3 + flPages
			hwm := firstFree + n
			data := make([]byte, hwm*ps)
			le := binary.LittleEndian
			// root leaf
			le.PutUint64(data[2*ps:], 2)
			le.PutUint16(data[2*ps+8:], boltfmt.FlagLeaf)
			// freelist
			fb := data[3*ps:]
			le.PutUint64(fb[0:], 3)
			le.PutUint16(fb[8:], boltfmt.FlagFree)
			le.PutUint32(fb[12:], uint32(flPages-1))
			off := 16
			if n >= 0xFFFF {
				le.PutUint16(fb[10:], 0xFFFF)
				le.PutUint64(fb[off:], uint64(n))
				off += 8
			} else {
				le.PutUint16(fb[10:], uint16(n))
			}
			for i := 0; i < n; i++ {
				le.PutUint64(fb[off+8*i:], uint64(firstFree+i))
			}
			for slot := 0; slot < 2; slot++ {
				boltfmt.EncodeMeta(data[slot*ps:], boltfmt.Meta{PageID: uint64(slot), Magic: boltfmt.Magic, Version: boltfmt.Version, PageSize: ps,
					Root: 2, Freelist: 3, Pgid: uint64(hwm), Txid: uint64(2 + slot)})
			}
			// the hand-made file must itself be a clean version-2 file for the independent reader (guards the encoder)
			if _, st, err := apix.DecodeBytes(data, ps); err != nil || len(st.Problems) > 0 || len(st.FreeIDs) != n {
				fail(n, flt, fmt.Sprintf("harness: hand-encoded file not accepted by the independent reader: %v %v (%d ids)", err, st.Problems, len(st.FreeIDs)))
				continue
			}
			path := apix.TempPath(hx.WorkDir())
			if err := os.WriteFile(path, data, 0600); err != nil {
				continue
			}
			msg := func() string {
				db, err := bolt.Open(path, 0600, apix.Cfg{Freelist: flt}.Options())
				if err != nil {
					return "Open: " + err.Error()
				}
				defer db.Close()
				if got := db.Stats().FreePageN; got != n {
					return fmt.Sprintf("Stats().FreePageN = %d after open, the file lists %d free ids", got, n)
				}
				var errs []string
				_ = db.View(func(tx *bolt.Tx) error {
					for e := range tx.Check() {
						if len(errs) < 3 {
							errs = append(errs, e.Error())
						}
					}
					return nil
				})
				if len(errs) > 0 {
					return fmt.Sprintf("Tx.Check on the hand-encoded file: %v", errs)
				}
				// one commit: the freelist (n-ish ids, still beyond the 0xFFFF boundary for the larger n) is written by this build
				if err := db.Update(func(tx *bolt.Tx) error {
					b, err := tx.CreateBucketIfNotExists([]byte("p"))
					if err != nil {
						return err
					}
					return b.Put([]byte("a"), []byte("v"))
				}); err != nil {
					return "commit on the hand-encoded file: " + err.Error()
				}
				want := db.Stats().FreePageN + db.Stats().PendingPageN
				if err := db.Close(); err != nil {
					return "Close: " + err.Error()
				}
				after, err := os.ReadFile(path)
				if err != nil {
					return err.Error()
				}
				_, st, err := apix.DecodeBytes(after, ps)
				if err != nil {
					return "file after one commit: " + err.Error()
				}
				if len(st.Problems) > 0 {
					return fmt.Sprintf("file after one commit is not a clean version-2 file: %v", st.Problems[0])
				}
				if len(st.FreeIDs) != want {
					return fmt.Sprintf("file after one commit lists %d free ids, the database reported %d free+pending", len(st.FreeIDs), want)
				}
				return ""
			}()
			os.Remove(path)
			if msg != "" {
				fail(n, flt, msg)
			}
		}
	}
	cov["big_freelist_files"] = cases
	hx.CleanWorkDir()
	return viols
}
