package checks

import (
	"fmt"
	"time"

	"go.etcd.io/bbolt/zverif/apix"
	"go.etcd.io/bbolt/zverif/hx"
)

// crashBoundary: after every successful commit, every crash image of that commit's I/O (per sync epoch, every
// subset of unsynced operations, sector tearing, torn meta) is recovered by the real code and judged.
func crashBoundary(tornEvery int) func(x *apix.Exec, kind string) *apix.Fail {
	return func(x *apix.Exec, kind string) *apix.Fail {
		if (kind != "commit" && kind != "reopen") || x.PreImage == nil {
			return nil
		}
		log := x.Tap.Log[x.TxLogStart:]
		pre, preID := x.PrevCommitted, x.CommittedID-1
		if kind == "reopen" {
			// Open itself commits when it has to persist a freelist that was not synced: same content, next txid
			wrote := false
			for _, ev := range log {
				if ev.Op == 0 { // write
					wrote = true
				}
			}
			if !wrote {
				return nil
			}
			pre = x.Committed
			hx.Counters["open_flush_commits_enumerated"]++
		}
		ps := x.Cfg.PageSize
		eps := apix.Epochs(x.PreImage, log, ps)
		other := x.Cfg
		if other.Freelist == "hashmap" {
			other.Freelist = "array"
		} else {
			other.Freelist = "hashmap"
		}
		other.NoFreelistSync = !other.NoFreelistSync
		sp := &apix.RecoverSpec{PageSize: ps, Pre: pre, PreID: preID, Post: x.Committed, PostID: x.CommittedID,
			Cfgs: []apix.Cfg{x.Cfg, other}, Dir: hx.WorkDir()}
		var st apix.CrashStats
		var fail *apix.Fail
		hx.Counters["commits_enumerated"]++
		torn := tornEvery > 0 && hx.Counters["commits_enumerated"]%tornEvery == 1
		for ei := range eps {
			ep := &eps[ei]
			st.Epochs++
			ep.Images(ps, 6, torn && ep.HasMeta, &st, func(img []byte, desc string) bool {
				which, f := apix.Recover(img, sp, &st)
				if which == "post" {
					st.PostImages++
				}
				if f != nil {
					f.Msg = fmt.Sprintf("crash in sync epoch %d/%d of the commit (%s): %s", ei+1, len(eps), desc, f.Msg)
					fail = f
					return false
				}
				return true
			})
			if fail != nil {
				break
			}
		}
		hx.Counters["epochs"] += st.Epochs
		hx.Counters["images"] += st.Images
		hx.Counters["distinct_images"] += st.Distinct
		hx.Counters["images_recovering_inflight_commit"] += st.PostImages
		hx.Counters["torn_meta_images"] += st.TornMeta
		hx.Counters["recoveries"] += st.Recoveries
		return fail
	}
}

func crashSetup(x *apix.Exec) {
	x.KeepPre = true
	x.Tap.Record = true
}

func cfgsCrash(tier string) []apix.Cfg {
	c := []apix.Cfg{
		{PageSize: 1024, Freelist: "array"},
		{PageSize: 1024, Freelist: "hashmap", NoFreelistSync: true},
		{PageSize: 1024, Freelist: "hashmap", NoGrowSync: true},
		{PageSize: 1024, Freelist: "array", NoFreelistSync: true, NoGrowSync: true},
	}
	if tier == "thorough" {
		c = append(c, apix.Cfg{PageSize: 1024, Freelist: "hashmap"}, apix.Cfg{PageSize: 1024, Freelist: "array", NoFreelistSync: true},
			apix.Cfg{PageSize: 1024, Freelist: "array", NoGrowSync: true}, apix.Cfg{PageSize: 1024, Freelist: "hashmap", NoFreelistSync: true, NoGrowSync: true},
			apix.Cfg{PageSize: 4096, Freelist: "array"}, apix.Cfg{PageSize: 4096, Freelist: "hashmap", NoFreelistSync: true, NoGrowSync: true})
	}
	return c
}

func init() {
	hx.Registry["c01-flat"] = func(tier string) []*hx.Scope {
		n, torn := 4, 40
		seeds := []string{"empty", "twolevel", "freeruns"}
		if tier == "thorough" {
			n, torn = 5, 10
			seeds = []string{"empty", "inline", "twolevel", "threelevel", "overflow", "freeruns"}
		}
		scs := mk("c01-flat", seeds, cfgsCrash(tier), n, 0, flatAlphabet([]string{"a", "L1"}, []string{"s", "X"}, true), crashBoundary(torn))
		for _, s := range scs {
			s.Setup = crashSetup
		}
		return scs
	}
	// a state whose free list spans several pages
	hx.Registry["c01-bigfree"] = func(tier string) []*hx.Scope {
		n := 4
		cs := []apix.Cfg{{PageSize: 1024, Freelist: "array"}, {PageSize: 1024, Freelist: "hashmap"}}
		if tier == "thorough" {
			n = 5
			cs = append(cs, apix.Cfg{PageSize: 1024, Freelist: "array", NoGrowSync: true})
		}
		scs := mk("c01-bigfree", []string{"bigfree"}, cs, n, 0, flatAlphabet([]string{"a"}, []string{"s", "X"}, false), crashBoundary(0))
		for _, s := range scs {
			s.Setup = crashSetup
		}
		return scs
	}
	hx.Registry["c01-nested"] = func(tier string) []*hx.Scope {
		n, depth := 4, 2
		if tier == "thorough" {
			n = 5
		}
		scs := mk("c01-nested", []string{"nested"}, cfgsCrash(tier)[:2], n, 0, nestedAlphabet([]string{"p", "q"}, depth, true), crashBoundary(0))
		for _, s := range scs {
			s.Setup = crashSetup
		}
		return scs
	}
	hx.Registry["c01-life"] = func(tier string) []*hx.Scope {
		n, maxTx := 6, 2
		seeds := []string{"twolevel"}
		if tier == "thorough" {
			n, maxTx = 8, 3
			seeds = []string{"twolevel", "freeruns", "overflow"}
		}
		cs := cfgsCrash(tier)
		for i := range cs {
			cs[i].InitialMmapSize = 1 << 20 // reader and writer share a goroutine (see lifeScopes)
		}
		scs := mk("c01-life", seeds, cs, n, 0, lifeAlphabet(1, lifeBodies, reopenCfgsBig(), maxTx), crashBoundary(0))
		for _, s := range scs {
			s.Setup = crashSetup
		}
		return scs
	}
}

// C01: commits are atomic and durable across a crash at any point.
func C01(tier string) int {
	return RunHX(HXCheck{
		Prop: "C01", Level: "fault_enumeration", Scopes: []string{"c01-flat", "c01-bigfree", "c01-nested", "c01-life"},
		Rule: "for every program of the explicit-state exploration (all programs within the bound from each seed state/configuration: puts, deletes, large values, macro fills that grow the file, nested bucket create/delete/move, open readers, reopenings) and for its last commit: the I/O log of the real commit is split into sync epochs; for every epoch every subset of the unsynced operations (exhaustive up to 6 operations, otherwise all subsets dropping or keeping at most 2), every sector prefix/suffix/single sector of each write, every sector subset of the meta write and (for every n-th commit) every contiguous byte range of the meta structure are turned into a crash image; each distinct image is recovered by the real Open under the same and under the opposite freelist configuration and must yield the last acknowledged state, or the in-flight state iff the independent decoder finds its meta complete, pass Tx.Check and page accounting, and accept a follow-up commit. distinct_nontrivial = distinct images recovered",
		Assumptions: []string{"persistence model: a completed fdatasync/fsync makes everything issued before it durable; afterwards every 512-byte sector of every write and every truncate independently did or did not reach the disk (plus sub-sector tearing of the meta write)",
			"NoSync mode and the crash while initialising a brand-new file are excluded as the README does"},
		Quick: 180 * time.Second, Thorough: 10 * time.Minute,
		Cov: func(total *hx.Stats, cov map[string]interface{}) {
			cov["evaluations"] = total.Counters["images"]
			cov["distinct_nontrivial"] = total.Counters["distinct_images"]
			cov["recoveries"] = total.Counters["recoveries"]
		},
	}, tier)
}
