package checks

import (
	"bytes"
	"encoding/json"
	"fmt"
	"os"
	"sort"
	"strconv"
	"strings"
	"sync/atomic"
	"time"

	bolt "go.etcd.io/bbolt"
	"go.etcd.io/bbolt/zverif/apix"
	"go.etcd.io/bbolt/zverif/evid"
	"go.etcd.io/bbolt/zverif/hx"
	"go.etcd.io/bbolt/zverif/par"
	"go.etcd.io/bbolt/zverif/refmodel"
)

// ---- C05: cursors ----

type c05Shape struct {
	Name   string
	Keys   []string // plain keys, ascending
	Val    string   // value class
	Subs   []string // nested bucket entries (names)
	Levels int      // levels the B+tree of the shape must have (0 = not asserted); guards against a vacuous shape
}

func c05Shapes(ps int) []c05Shape {
	long := func(i int) string { return fmt.Sprintf("L%02d", i) + strings.Repeat("_", ps/3-3) }
	// 12 long keys: leaves of 2,2,2,2,4 keys, a branch level of 2+3 children and a root above it (10 keys give a
	// two-level tree only - found when a seeded change that needs a second branch level went unnoticed)
	var l12 []string
	for i := 0; i < 12; i++ {
		l12 = append(l12, long(i))
	}
	return []c05Shape{
		{Name: "empty"},
		{Name: "inline", Keys: []string{"b", "d"}, Val: "s"},
		{Name: "leaf", Keys: []string{"b", "d", "f"}, Val: "M"},
		{Name: "twolevel", Keys: []string{"b", "d", "f", "h", "j", "l", "n", "p", "r"}, Val: "M", Levels: 2},
		{Name: "threelevel", Keys: l12, Val: "s", Levels: 3},
		{Name: "nested", Keys: []string{"b", "d", "f", "h", "j", "l"}, Val: "M", Subs: []string{"c", "k"}},
	}
}

type c05Job struct {
	PS     int    `json:"ps"`
	FL     string `json:"fl"`
	Shape  int    `json:"shape"`
	MaskLo int    `json:"lo"`
	MaskHi int    `json:"hi"`
	Depth  int    `json:"depth"`
	Puts   bool   `json:"puts"`            // additionally: every single put into each gap (depth-1 sequences)
	ReadTx bool   `json:"read"`            // sequences in a read transaction on the committed shape (mask ignored)
	Reuse  bool   `json:"reuse,omitempty"` // cursors created and positioned BEFORE the deletes/puts, repositioned afterwards
	Replay bool   `json:"replay"`
	Mask   int    `json:"mask"`
	PutGap int    `json:"putgap"` // -1 none
	Seq    []int  `json:"seq"`
}

type c05Res struct {
	Seqs   int      `json:"seqs"`
	Calls  int      `json:"calls"`
	Cases  int      `json:"cases"` // (mask, put) combinations
	Fail   string   `json:"fail,omitempty"`
	FailAt *c05Job  `json:"fail_at,omitempty"`
	Err    string   `json:"err,omitempty"`
	Shapes []string `json:"-"`
}

var c05Files = map[string][]byte{}

func c05Build(ps int, flt string, sh c05Shape) ([]byte, error) {
	k := fmt.Sprintf("%d/%s/%s", ps, flt, sh.Name)
	if b, ok := c05Files[k]; ok {
		return b, nil
	}
	path := apix.TempPath(hx.WorkDir())
	defer os.Remove(path)
	x, f := apix.NewExec(path, apix.Cfg{PageSize: ps, Freelist: flt}, nil)
	if f != nil {
		return nil, fmt.Errorf("%v", f)
	}
	prog := []apix.Op{beginW, op("mkb", nil, "t", "")}
	if f := x.Run(prog); f != nil {
		return nil, fmt.Errorf("%v", f)
	}
	b := x.W.Bucket([]byte("t"))
	mb := x.WM.Ent["t"].Sub
	for _, k := range sh.Keys {
		v := x.ValBytes(sh.Val)
		if err := b.Put([]byte(k), v); err != nil {
			return nil, err
		}
		_ = mb.Put(k, v)
	}
	for _, s := range sh.Subs {
		nb, err := b.CreateBucket([]byte(s))
		if err != nil {
			return nil, err
		}
		_ = nb.Put([]byte("in"), []byte("x"))
		mn, _ := mb.CreateBucket(s)
		_ = mn.Put("in", []byte("x"))
	}
	if f := x.Do(commit); f != nil {
		return nil, fmt.Errorf("%v", f)
	}
	if sh.Levels > 0 {
		got := 0
		_ = x.DB.View(func(tx *bolt.Tx) error { got = tx.Bucket([]byte("t")).Stats().Depth; return nil })
		if got != sh.Levels {
			return nil, fmt.Errorf("shape %s at page size %d has %d tree levels, %d intended", sh.Name, ps, got, sh.Levels)
		}
	}
	if _, f := x.CheckFile("c05 shape"); f != nil {
		return nil, fmt.Errorf("%v", f)
	}
	x.Close()
	data, err := os.ReadFile(path)
	if err != nil {
		return nil, err
	}
	c05Files[k] = data
	return data, nil
}

// gapKeys returns one key strictly inside every gap of the sorted key list (before first, between, after last).
func gapKeys(keys []string) []string {
	var out []string
	if len(keys) == 0 {
		return []string{"m"}
	}
	out = append(out, "A")
	for _, k := range keys {
		out = append(out, k+"+")
	}
	return out
}

type curCall struct {
	kind string // First Last Next Prev Seek
	arg  string
}

func (c curCall) String() string {
	if c.kind == "Seek" {
		a := c.arg
		if len(a) > 6 {
			a = a[:6] + "~"
		}
		return "Seek(" + a + ")"
	}
	return c.kind
}

func c05Alphabet(all []string) []curCall {
	calls := []curCall{{"First", ""}, {"Last", ""}, {"Next", ""}, {"Prev", ""}}
	seen := map[string]bool{}
	add := func(k string) {
		if !seen[k] {
			seen[k] = true
			calls = append(calls, curCall{"Seek", k})
		}
	}
	for _, k := range all {
		add(k)
	}
	for _, g := range gapKeys(all) {
		add(g)
	}
	return calls
}

// c05Beat counts cursor calls; c05Now describes the case and call in progress. A watchdog in the worker ends the
// process when one single call has not returned for c05CallLimit: hang detection is per call, not per job, so a long
// job on a slow machine is never mistaken for a call that does not return.
var (
	c05Beat      atomic.Int64
	c05Now       atomic.Value // string
	c05Active    atomic.Bool
	c05CallLimit = 120 * time.Second
)

func c05Watchdog() {
	if v, err := strconv.Atoi(os.Getenv("VERIF_C05_CALL_LIMIT_S")); err == nil && v > 0 {
		c05CallLimit = time.Duration(v) * time.Second // for trying the watchdog itself
	}
	last, since := int64(-1), time.Now()
	for {
		time.Sleep(2 * time.Second)
		if !c05Active.Load() {
			last, since = -1, time.Now()
			continue
		}
		if b := c05Beat.Load(); b != last {
			last, since = b, time.Now()
			continue
		}
		if time.Since(since) > c05CallLimit {
			what, _ := c05Now.Load().(string)
			fmt.Fprintf(os.Stderr, "\nC05-HANG: a cursor call has not returned for %s: %s\n", c05CallLimit, what)
			os.Exit(3)
		}
	}
}

func doCall(c *bolt.Cursor, mc *refmodel.Cursor, call curCall) string {
	c05Beat.Add(1)
	var k, v []byte
	var mk string
	var me *refmodel.Ent
	var ok bool
	switch call.kind {
	case "First":
		k, v = c.First()
		mk, me, ok = mc.First()
	case "Last":
		k, v = c.Last()
		mk, me, ok = mc.Last()
	case "Next":
		k, v = c.Next()
		mk, me, ok = mc.Next()
	case "Prev":
		k, v = c.Prev()
		mk, me, ok = mc.Prev()
	case "Seek":
		k, v = c.Seek([]byte(call.arg))
		mk, me, ok = mc.Seek(call.arg)
	}
	if !ok {
		if k != nil || v != nil {
			return fmt.Sprintf("%s returned key %q, the sorted list says nil", call, abbrev(k))
		}
		return ""
	}
	if k == nil {
		return fmt.Sprintf("%s returned nil, the sorted list says key %q", call, abbrev([]byte(mk)))
	}
	if string(k) != mk {
		return fmt.Sprintf("%s returned key %q, the sorted list says %q", call, abbrev(k), abbrev([]byte(mk)))
	}
	if me.Sub != nil {
		if v != nil {
			return fmt.Sprintf("%s: nested bucket %q returned with a non-nil value", call, abbrev(k))
		}
	} else if v == nil || !bytes.Equal(v, me.Val) {
		return fmt.Sprintf("%s: value of %q differs", call, abbrev(k))
	}
	return ""
}

func abbrev(b []byte) string {
	if len(b) > 8 {
		return string(b[:8]) + "~"
	}
	return string(b)
}

// c05Case runs all call sequences up to depth on bucket b against model node m.
func c05Case(b *bolt.Bucket, m *refmodel.Node, alpha []curCall, depth int, res *c05Res, only []int) (string, []int) {
	idx := make([]int, depth)
	var run func(d int, prefix []int) (string, []int)
	run = func(d int, prefix []int) (string, []int) {
		// execute the sequence prefix on a fresh cursor
		if len(prefix) > 0 {
			c := b.Cursor()
			mc := m.Cursor()
			res.Seqs++
			for i, ci := range prefix {
				res.Calls++
				if msg := doCall(c, mc, alpha[ci]); msg != "" {
					var names []string
					for _, cj := range prefix[:i+1] {
						names = append(names, alpha[cj].String())
					}
					return fmt.Sprintf("cursor sequence %s: %s", strings.Join(names, ", "), msg), append([]int{}, prefix[:i+1]...)
				}
			}
		}
		if d == depth {
			return "", nil
		}
		for ci := range alpha {
			if msg, seq := run(d+1, append(prefix, ci)); msg != "" {
				return msg, seq
			}
		}
		return "", nil
	}
	_ = idx
	if only != nil {
		c := b.Cursor()
		mc := m.Cursor()
		for i, ci := range only {
			if msg := doCall(c, mc, alpha[ci]); msg != "" {
				return fmt.Sprintf("call %d (%s): %s", i, alpha[ci], msg), only[:i+1]
			}
		}
		return "", nil
	}
	// only maximal sequences need to be run: every prefix is checked on the way
	var full func(d int, prefix []int) (string, []int)
	full = func(d int, prefix []int) (string, []int) {
		if d == depth {
			c := b.Cursor()
			mc := m.Cursor()
			res.Seqs++
			for i, ci := range prefix {
				res.Calls++
				if msg := doCall(c, mc, alpha[ci]); msg != "" {
					var names []string
					for _, cj := range prefix[:i+1] {
						names = append(names, alpha[cj].String())
					}
					return fmt.Sprintf("cursor sequence %s: %s", strings.Join(names, ", "), msg), append([]int{}, prefix[:i+1]...)
				}
			}
			return "", nil
		}
		for ci := range alpha {
			if msg, seq := full(d+1, append(prefix, ci)); msg != "" {
				return msg, seq
			}
		}
		return "", nil
	}
	return full(0, nil)
}

func c05Work(job c05Job) c05Res {
	var res c05Res
	shapes := c05Shapes(job.PS)
	sh := shapes[job.Shape]
	data, err := c05Build(job.PS, job.FL, sh)
	if err != nil {
		res.Err = err.Error()
		return res
	}
	all := append(append([]string{}, sh.Keys...), sh.Subs...)
	sort.Strings(all)
	alpha := c05Alphabet(all)
	path := apix.TempPath(hx.WorkDir())
	defer os.Remove(path)
	runCase := func(mask int, putGap int, depth int, only []int) (string, []int) {
		if err := os.WriteFile(path, data, 0600); err != nil {
			return "harness: " + err.Error(), nil
		}
		db, err := bolt.Open(path, 0600, apix.Cfg{PageSize: job.PS, Freelist: job.FL}.Options())
		if err != nil {
			return "harness: open: " + err.Error(), nil
		}
		defer db.Close()
		tx, err := db.Begin(!job.ReadTx)
		if err != nil {
			return "harness: begin: " + err.Error(), nil
		}
		defer func() { _ = tx.Rollback() }()
		b := tx.Bucket([]byte("t"))
		m := refmodel.New()
		for _, k := range sh.Keys {
			m.Ent[k] = &refmodel.Ent{Val: b.Get([]byte(k))}
		}
		for _, s := range sh.Subs {
			m.Ent[s] = &refmodel.Ent{Sub: refmodel.New()}
		}
		if !job.ReadTx {
			for i, k := range sh.Keys {
				if mask&(1<<uint(i)) != 0 {
					if err := b.Delete([]byte(k)); err != nil {
						return "harness: delete: " + err.Error(), nil
					}
					delete(m.Ent, k)
				}
			}
			if putGap >= 0 {
				g := gapKeys(all)[putGap]
				v := []byte("put-" + g)
				if err := b.Put([]byte(g), v); err != nil {
					return "harness: put: " + err.Error(), nil
				}
				m.Ent[g] = &refmodel.Ent{Val: v}
			}
		}
		res.Cases++
		c05Now.Store(fmt.Sprintf("shape %s, page size %d, keys deleted earlier in the same write tx: %s, put into gap %d (some sequence of up to %d calls)", sh.Name, job.PS, maskKeys(sh.Keys, mask), putGap, depth))
		c05Active.Store(true)
		defer c05Active.Store(false)
		return c05Case(b, m, alpha, depth, &res, only)
	}
	// runReuse: valid cursor reuse across mutations. The API asks for a cursor to be REPOSITIONED after the bucket was
	// changed - First, Last and Seek are repositioning calls, so a cursor that was created and positioned before the
	// deletes/puts of this case and is then repositioned must behave like a fresh one. For every earlier position
	// (First, Last, Seek(every key)) one cursor per sequence [R] and [R, X] (R repositioning, X any call) is created
	// before the mutations; only = {pre-position, calls...} replays one of them.
	runReuse := func(mask int, putGap int, only []int) (string, []int) {
		if err := os.WriteFile(path, data, 0600); err != nil {
			return "harness: " + err.Error(), nil
		}
		db, err := bolt.Open(path, 0600, apix.Cfg{PageSize: job.PS, Freelist: job.FL}.Options())
		if err != nil {
			return "harness: open: " + err.Error(), nil
		}
		defer db.Close()
		tx, err := db.Begin(true)
		if err != nil {
			return "harness: begin: " + err.Error(), nil
		}
		defer func() { _ = tx.Rollback() }()
		b := tx.Bucket([]byte("t"))
		m := refmodel.New()
		for _, k := range sh.Keys {
			m.Ent[k] = &refmodel.Ent{Val: b.Get([]byte(k))}
		}
		for _, s := range sh.Subs {
			m.Ent[s] = &refmodel.Ent{Sub: refmodel.New()}
		}
		var pre []curCall // earlier positions
		pre = append(pre, curCall{"First", ""}, curCall{"Last", ""})
		for _, k := range sh.Keys {
			pre = append(pre, curCall{"Seek", k})
		}
		var repos []int // indices of repositioning calls in alpha
		for i, c := range alpha {
			if c.kind != "Next" && c.kind != "Prev" {
				repos = append(repos, i)
			}
		}
		type planned struct {
			c   *bolt.Cursor
			pre int
			seq []int
		}
		var plan []planned
		position := func(pi int) *bolt.Cursor {
			c := b.Cursor()
			switch pre[pi].kind {
			case "First":
				c.First()
			case "Last":
				c.Last()
			default:
				c.Seek([]byte(pre[pi].arg))
			}
			return c
		}
		if only != nil {
			plan = append(plan, planned{position(only[0]), only[0], only[1:]})
		} else {
			for pi := range pre {
				for _, r := range repos {
					plan = append(plan, planned{position(pi), pi, []int{r}})
					for x := range alpha {
						plan = append(plan, planned{position(pi), pi, []int{r, x}})
					}
				}
			}
		}
		// now the mutations of this case
		for i, k := range sh.Keys {
			if mask&(1<<uint(i)) != 0 {
				if err := b.Delete([]byte(k)); err != nil {
					return "harness: delete: " + err.Error(), nil
				}
				delete(m.Ent, k)
			}
		}
		if putGap >= 0 {
			g := gapKeys(all)[putGap]
			v := []byte("put-" + g)
			if err := b.Put([]byte(g), v); err != nil {
				return "harness: put: " + err.Error(), nil
			}
			m.Ent[g] = &refmodel.Ent{Val: v}
		}
		res.Cases++
		c05Now.Store(fmt.Sprintf("shape %s, page size %d, cursor positioned before keys %s were deleted / gap %d was filled, repositioned afterwards", sh.Name, job.PS, maskKeys(sh.Keys, mask), putGap))
		c05Active.Store(true)
		defer c05Active.Store(false)
		for _, pl := range plan {
			mc := m.Cursor()
			res.Seqs++
			for i, ci := range pl.seq {
				res.Calls++
				if msg := doCall(pl.c, mc, alpha[ci]); msg != "" {
					var names []string
					for _, cj := range pl.seq[:i+1] {
						names = append(names, alpha[cj].String())
					}
					return fmt.Sprintf("cursor positioned with %s BEFORE the deletes/puts, then (after them) %s: %s", pre[pl.pre], strings.Join(names, ", "), msg),
						append([]int{pl.pre}, pl.seq[:i+1]...)
				}
			}
		}
		return "", nil
	}
	if job.Replay && job.Reuse {
		msg, _ := runReuse(job.Mask, job.PutGap, job.Seq)
		res.Fail = msg
		return res
	}
	if job.Replay {
		msg, _ := runCase(job.Mask, job.PutGap, len(job.Seq), job.Seq)
		res.Fail = msg
		return res
	}
	report := func(mask, gap int, msg string, seq []int) {
		res.Fail = fmt.Sprintf("shape %s, keys deleted earlier in the same write tx: %s, put into gap: %d: %s", sh.Name, maskKeys(sh.Keys, mask), gap, msg)
		res.FailAt = &c05Job{PS: job.PS, FL: job.FL, Shape: job.Shape, Replay: true, Mask: mask, PutGap: gap, Seq: seq, ReadTx: job.ReadTx}
	}
	if job.ReadTx {
		if msg, seq := runCase(0, -1, job.Depth, nil); msg != "" {
			report(0, -1, msg, seq)
		}
		return res
	}
	if job.Reuse {
		for mask := job.MaskLo; mask < job.MaskHi; mask++ {
			gaps := []int{-1}
			for g := range gapKeys(all) {
				gaps = append(gaps, g)
			}
			for _, g := range gaps {
				if mask == 0 && g == -1 {
					continue // nothing mutated
				}
				if msg, seq := runReuse(mask, g, nil); msg != "" {
					res.Fail = fmt.Sprintf("shape %s, keys deleted in the write tx: %s, put into gap: %d: %s", sh.Name, maskKeys(sh.Keys, mask), g, msg)
					res.FailAt = &c05Job{PS: job.PS, FL: job.FL, Shape: job.Shape, Replay: true, Reuse: true, Mask: mask, PutGap: g, Seq: seq}
					return res
				}
			}
		}
		return res
	}
	for mask := job.MaskLo; mask < job.MaskHi; mask++ {
		if msg, seq := runCase(mask, -1, job.Depth, nil); msg != "" {
			report(mask, -1, msg, seq)
			return res
		}
		if job.Puts {
			for g := range gapKeys(all) {
				if msg, seq := runCase(mask, g, job.Depth-1, nil); msg != "" {
					report(mask, g, msg, seq)
					return res
				}
			}
		}
	}
	return res
}

func maskKeys(keys []string, mask int) string {
	var out []string
	for i, k := range keys {
		if mask&(1<<uint(i)) != 0 {
			out = append(out, abbrev([]byte(k)))
		}
	}
	return "{" + strings.Join(out, ",") + "}"
}

func init() {
	JobFuncs["c05"] = func(b []byte) []byte {
		go c05Watchdog()
		var j c05Job
		_ = json.Unmarshal(b, &j)
		r := c05Work(j)
		out, _ := json.Marshal(r)
		return out
	}
	WorkerKinds["c05"] = func() {
		defer hx.CleanWorkDir()
		go c05Watchdog()
		par.Serve(func(b []byte) []byte {
			var j c05Job
			_ = json.Unmarshal(b, &j)
			r := c05Work(j)
			out, _ := json.Marshal(r)
			return out
		})
	}
}

// C05: cursors enumerate in byte order and navigate consistently.
func C05(tier string) int {
	start := time.Now()
	LoadFindings()
	depth := 3
	cfgs := [][2]interface{}{{1024, "array"}}
	if tier == "thorough" {
		depth = 4
		cfgs = append(cfgs, [2]interface{}{4096, "hashmap"})
	}
	var jobs [][]byte
	var meta []c05Job
	for _, c := range cfgs {
		ps, flt := c[0].(int), c[1].(string)
		for si, sh := range c05Shapes(ps) {
			n := len(sh.Keys)
			total := 1 << uint(n)
			chunk := 8
			if n <= 3 {
				chunk = total
			} else if depth >= 4 && n >= 10 {
				chunk = 2
			}
			for lo := 0; lo < total; lo += chunk {
				hi := lo + chunk
				if hi > total {
					hi = total
				}
				j := c05Job{PS: ps, FL: flt, Shape: si, MaskLo: lo, MaskHi: hi, Depth: depth, Puts: true}
				meta = append(meta, j)
				if n > 0 && (n < 12 || tier == "thorough" || lo%64 == 0) {
					// cursors reused across the mutations (quick: every 8th chunk of deletion subsets of the 12-key shape)
					meta = append(meta, c05Job{PS: ps, FL: flt, Shape: si, MaskLo: lo, MaskHi: hi, Reuse: true})
				}
			}
			meta = append(meta, c05Job{PS: ps, FL: flt, Shape: si, Depth: depth, ReadTx: true})
		}
	}
	for _, j := range meta {
		b, _ := json.Marshal(j)
		jobs = append(jobs, b)
	}
	pool := par.NewPool(WorkersCPU(), "worker", "c05")
	pool.Timeout = 60 * time.Minute
	defer pool.Close()
	var seqs, calls, cases int
	var viols, errs []string
	known := map[string]*Finding{}
	_ = pool.Run(jobs, func(r par.Result) {
		j := meta[r.Idx]
		if r.Hung {
			// the per-job limit is only a backstop (60 min); the per-call watchdog in the worker decides about hangs
			errs = append(errs, fmt.Sprintf("job %+v exceeded the backstop limit", j))
			return
		}
		if r.Died {
			what := "worker crashed: " + lastLine(r.Stderr)
			if i := strings.Index(r.Stderr, "C05-HANG: "); i >= 0 {
				what = strings.TrimSpace(r.Stderr[i+len("C05-HANG: "):])
			}
			msg := fmt.Sprintf("shape %s masks [%d,%d): %s", c05Shapes(j.PS)[j.Shape].Name, j.MaskLo, j.MaskHi, what)
			if f := MatchFinding("C05", nil, "hang", msg); f != nil {
				known[f.ID] = f
				return
			}
			if len(viols) < 5 {
				p := evid.Replay("C05", map[string]interface{}{"property": "C05", "engine": "c05", "job": j, "msg": msg})
				viols = append(viols, p)
				evid.Violation("C05", p)
				fmt.Println("  " + msg)
			}
			return
		}
		var res c05Res
		if err := json.Unmarshal(r.Out, &res); err != nil {
			errs = append(errs, err.Error())
			return
		}
		seqs += res.Seqs
		calls += res.Calls
		cases += res.Cases
		if res.Err != "" {
			errs = append(errs, res.Err)
		}
		if res.Fail != "" {
			if f := MatchFinding("C05", nil, "mismatch", res.Fail); f != nil {
				known[f.ID] = f
				return
			}
			if len(viols) < 5 {
				p := evid.Replay("C05", map[string]interface{}{"property": "C05", "engine": "c05", "job": res.FailAt, "msg": res.Fail})
				viols = append(viols, p)
				evid.Violation("C05", p)
				fmt.Println("  " + res.Fail)
			}
		}
	})
	for _, id := range keys(known) {
		fmt.Printf("KNOWN-FINDING: property=C05 %s: %s\n", id, known[id].What)
	}
	cov := map[string]interface{}{
		"states": cases, "transitions": calls, "traces_validated_against_impl": seqs,
		"evaluations": seqs, "distinct_nontrivial": cases,
		"rule":       fmt.Sprintf("for each bucket shape (empty, inline, single leaf, 2-level, 3-level, with nested-bucket entries) and each page size/backend: every subset of the plain keys deleted earlier in the same write transaction, each additionally with every single put into every gap, and the committed shape in a read transaction; on each such state every sequence of %d cursor calls (one call fewer for the put variants) from First, Last, Next, Prev and Seek(k) for every key and every gap including before-first and after-last, compared call by call with a sorted list with a position; states = (shape, deletion set, put) combinations, transitions = cursor calls executed on the real code", depth),
		"samples":    []string{"shape twolevel, deleted {d,f,h}, sequence Last, Prev, Prev", "shape threelevel, deleted {L00..L09}, sequence Last", "shape nested, read tx, Seek(c), Next, Prev"},
		"exhaustive": len(errs) == 0, "harness_errors": errs, "sequence_depth": depth, "worker_restarts": pool.Restarts,
		"known_findings_seen": keys(known),
	}
	ev := &evid.Evidence{PropertyID: "C05", Tier: tier, Level: "model_checking", Coverage: cov, Violations: len(viols),
		Assumptions: []string{"a cursor used after a mutation without repositioning is outside the documented contract and never generated", "end-of-range behaviour as in DESIGN.md appendix A"}}
	if err := ev.Write(start); err != nil {
		return 2
	}
	for i, e := range errs {
		if i < 5 {
			fmt.Fprintln(os.Stderr, "harness error:", e)
		}
	}
	if len(viols) > 0 {
		return 1
	}
	if len(errs) > 0 {
		return 2
	}
	fmt.Printf("C05 %s: OK cases=%d sequences=%d calls=%d wall=%.1fs\n", tier, cases, seqs, calls, time.Since(start).Seconds())
	return 0
}

func lastLine(s string) string {
	l := strings.Split(strings.TrimSpace(s), "\n")
	return l[len(l)-1]
}
