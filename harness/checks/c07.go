package checks

import (
	"time"

	"go.etcd.io/bbolt/zverif/apix"
	"go.etcd.io/bbolt/zverif/hx"
)

// boundaryC07: every page below the high-water mark is accounted for exactly once by the independent decoder,
// and the database's own statistics, page-type report and integrity check agree.
func boundaryC07(x *apix.Exec, kind string) *apix.Fail {
	acc, f := x.CheckFile("after " + kind)
	if f != nil {
		return f
	}
	if x.Cfg.ReadOnly && !x.Cfg.PreLoad {
		return nil
	}
	return x.CheckPageTypes(acc.State, "after "+kind)
}

func cfgsAcct(tier string) []apix.Cfg {
	c := []apix.Cfg{
		{PageSize: 1024, Freelist: "array"},
		{PageSize: 1024, Freelist: "hashmap"},
		{PageSize: 1024, Freelist: "array", NoFreelistSync: true},
		{PageSize: 1024, Freelist: "hashmap", NoFreelistSync: true},
	}
	if tier == "thorough" {
		c = append(c, apix.Cfg{PageSize: 4096, Freelist: "array"}, apix.Cfg{PageSize: 4096, Freelist: "hashmap", NoFreelistSync: true},
			apix.Cfg{PageSize: 16384, Freelist: "hashmap"})
	}
	return c
}

func reopenCfgsBig() []apix.Cfg {
	c := reopenCfgs()
	for i := range c {
		c[i].InitialMmapSize = 1 << 20
	}
	return c
}

func reopenCfgs() []apix.Cfg {
	return []apix.Cfg{{Freelist: "array"}, {Freelist: "hashmap", NoFreelistSync: true}}
}

func lifeScopes(name string, tier string, c10 bool, boundary func(x *apix.Exec, kind string) *apix.Fail) []*hx.Scope {
	n, maxTx := 7, 3
	seeds := []string{"twolevel", "freeruns"}
	if tier == "thorough" {
		n, maxTx = 9, 4
		seeds = []string{"inline", "twolevel", "overflow", "freeruns"}
	}
	cs := cfgsAcct(tier)
	for i := range cs {
		// readers and the writer share one goroutine in these explorations: a commit that had to remap while a reader is
		// open would be the documented single-goroutine deadlock, so the map is made large enough (remap: driver d3, c08-grow)
		cs[i].InitialMmapSize = 1 << 20
	}
	scs := mk(name, seeds, cs, n, 1, lifeAlphabet(2, lifeBodies, reopenCfgsBig(), maxTx), boundary)
	for _, s := range scs {
		s.Setup = func(x *apix.Exec) { x.EnableMonitor(c10) }
	}
	return scs
}

func nestedScopes(name string, tier string, boundary func(x *apix.Exec, kind string) *apix.Fail) []*hx.Scope {
	n, depth := 5, 2
	seeds := []string{"empty", "nested"}
	if tier == "thorough" {
		n, depth = 6, 3
		seeds = []string{"empty", "nested", "bigkeys"}
	}
	cs := cfgsAcct(tier)
	if tier != "thorough" {
		// quick: array backend with a persisted freelist, hash-map backend without; thorough: the full product
		cs = []apix.Cfg{cs[0], cs[3]}
	}
	scs := mk(name, seeds, cs, n, 1, nestedAlphabet([]string{"p", "q"}, depth, true), boundary)
	for _, s := range scs {
		s.Setup = func(x *apix.Exec) { x.EnableMonitor(false) }
	}
	return scs
}

func init() {
	hx.Registry["c07-life"] = func(tier string) []*hx.Scope { return lifeScopes("c07-life", tier, false, boundaryC07) }
	hx.Registry["c07-nested"] = func(tier string) []*hx.Scope { return nestedScopes("c07-nested", tier, boundaryC07) }
	// the same exploration with every map iteration of the code under test in descending order
	hx.Registry["c07-nested-desc"] = func(tier string) []*hx.Scope {
		scs := nestedScopes("c07-nested-desc", "quick", boundaryC07)
		for _, s := range scs {
			s.MapDesc = true
			if tier != "thorough" {
				s.MaxOps = 4
			}
		}
		return scs
	}
}

// C07: page accounting after every commit, rollback and reopen.
func C07(tier string) int {
	return RunHX(HXCheck{
		Prop: "C07", Level: "model_checking", Scopes: []string{"c07-life", "c07-nested", "c07-fault", "c07-nested-desc"},
		Rule: "breadth-first enumeration of all programs within the bound (write transactions with page-freeing bodies, nested bucket create/delete/move, readers of different ages, rollbacks, reopen with other freelist backend / sync setting) from each seed and configuration; after every commit, rollback, failed commit (scope c07-fault: every single I/O failure of every commit, with a reader held across) and reopen the independent decoder boltfmt must classify every page below the high-water mark as exactly one of meta / freelist / reachable once / listed free once, with ordered keys and in-page elements, and Stats, Tx.Page and Tx.Check must agree; a state is a distinct exact state key",
		Assumptions: []string{"boltfmt implements the published version-2 layout (cross-checked against the API dump and the reference model on every state)",
			"bounded alphabets; page sizes 1024 (quick) and 1024/4096/16384 (thorough)"},
		Quick: 100 * time.Second, Thorough: 10 * time.Minute,
	}, tier)
}
