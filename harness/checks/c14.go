package checks

import (
	"bytes"
	"fmt"
	"os"
	"strings"
	"syscall"
	"time"

	bolt "go.etcd.io/bbolt"
	"go.etcd.io/bbolt/zverif/apix"
	"go.etcd.io/bbolt/zverif/evid"
	"go.etcd.io/bbolt/zverif/hx"
	"go.etcd.io/bbolt/zverif/mc"
	"go.etcd.io/bbolt/zverif/refmodel"
	"go.etcd.io/bbolt/zverif/vsync"
)

// ---- C14: hot backups ----

// backupAlphabet: the lifecycle alphabet plus a backup (WriteTo / CopyFile) through every open reader.
func backupAlphabet(base func(x *apix.Exec, t *hx.Track, left int) []apix.Op) func(x *apix.Exec, t *hx.Track, left int) []apix.Op {
	return func(x *apix.Exec, t *hx.Track, left int) []apix.Op {
		ops := base(x, t, left)
		if left <= 0 {
			return ops
		}
		for i, r := range x.Readers {
			if r != nil {
				ops = append(ops, apix.Op{K: "backup", N: i}, apix.Op{K: "copyfile", N: i})
			}
		}
		return ops
	}
}

// yieldWriter collects the bytes and makes every Write call a scheduling point.
type yieldWriter struct {
	buf    []byte
	writes int
}

func (w *yieldWriter) Write(p []byte) (int, error) {
	vsync.Yield()
	w.buf = append(w.buf, p...)
	w.writes++
	vsync.Yield()
	return len(p), nil
}

// backupDriver: a reader thread copies the database with WriteTo while a writer thread commits transactions that
// free and reuse pages.
func backupDriver(param string) mc.Driver {
	ps, flt := parseParam(param)
	return func(s *vsync.Session) mc.Outcome {
		e, err := openEnv(s, ps, flt, 110, nil)
		if err != nil {
			return mc.Outcome{Fail: "open: " + err.Error()}
		}
		model := refmodel.New()
		c := refmodel.New()
		model.Ent["c"] = &refmodel.Ent{Sub: c}
		_ = e.db.View(func(tx *bolt.Tx) error {
			return tx.Bucket([]byte("c")).ForEach(func(k, v []byte) error { _ = c.Put(string(k), v); return nil })
		})
		versions := map[int]*refmodel.Node{e.id0: model.Clone()}
		var obs []string
		vsync.GoNamed("W", func() {
			for t := 1; t <= 2; t++ {
				err := e.db.Update(func(tx *bolt.Tx) error {
					b := tx.Bucket([]byte("c"))
					m2 := model.Clone()
					mc2 := m2.Ent["c"].Sub
					for i := 0; i < 6; i++ {
						k := fmt.Sprintf("k%03d", (t*37+i*17)%110)
						v := []byte(strings.Repeat(fmt.Sprint(t), ps*3/10))
						if err := b.Put([]byte(k), v); err != nil {
							return err
						}
						_ = mc2.Put(k, v)
					}
					_ = b.Delete([]byte(fmt.Sprintf("k%03d", t)))
					_ = mc2.Delete(fmt.Sprintf("k%03d", t))
					versions[tx.ID()] = m2
					model = m2
					return nil
				})
				if err != nil {
					e.failf("update %d: %v", t, err)
				}
			}
		})
		vsync.GoNamed("R", func() {
			vsync.Yield()
			tx, err := e.db.Begin(false)
			if err != nil {
				e.failf("Begin: %v", err)
				return
			}
			id := tx.ID()
			w := &yieldWriter{}
			n, err := tx.WriteTo(w)
			size := tx.Size()
			if err != nil {
				e.failf("WriteTo: %v", err)
			} else if n != size || int64(len(w.buf)) != size {
				e.failf("WriteTo returned %d and produced %d bytes, Size() is %d", n, len(w.buf), size)
			} else if want := versions[id]; want == nil {
				e.failf("reader id %d names no version", id)
			} else {
				apix.SetTap(nil)
				if msg := apix.CheckBackup(w.buf, ps, want, hx.WorkDir()); msg != "" {
					e.failf("backup of version %d taken while the writer was committing: %s", id, msg)
				}
				apix.SetTap(e.tap)
			}
			obs = append(obs, fmt.Sprintf("backup@%d/%dchunks", id-e.id0, w.writes))
			_ = tx.Rollback()
		})
		vsync.Join()
		e.close()
		o := e.outcome()
		o.Obs = strings.Join(obs, " ")
		return o
	}
}

func init() {
	mc.Registry["backup"] = backupDriver
	// files written by WriteTo / CopyFile are files this code writes too (C12): decoded by the independent reader at
	// page sizes below and above the OS page size
	hx.Registry["c12-backup"] = func(tier string) []*hx.Scope {
		n := 5
		if tier == "thorough" {
			n = 7
		}
		cs := []apix.Cfg{{PageSize: 1024, Freelist: "array", InitialMmapSize: 1 << 20}, {PageSize: 16384, Freelist: "hashmap", NoFreelistSync: true, InitialMmapSize: 1 << 20},
			{PageSize: 4096, Freelist: "array", InitialMmapSize: 1 << 20}}
		bodies := []apix.Op{op("put", P("p"), "a", "X"), {K: "thin", P: P("p"), N: 3}}
		return mk("c12-backup", []string{"twolevel", "nested"}, cs, n, 1, backupAlphabet(lifeAlphabet(1, bodies, nil, 2)), nil)
	}
	hx.Registry["c14-life"] = func(tier string) []*hx.Scope {
		n, maxTx := 6, 2
		seeds := []string{"twolevel", "freeruns"}
		if tier == "thorough" {
			n, maxTx = 8, 3
			seeds = []string{"inline", "twolevel", "overflow", "freeruns", "nested"}
		}
		cs := cfgsAcct(tier)
		for i := range cs {
			cs[i].InitialMmapSize = 1 << 20
		}
		return mk("c14-life", seeds, cs, n, 1, backupAlphabet(lifeAlphabet(2, lifeBodies, nil, maxTx)), nil)
	}
	// backups through a reader held across FAILED commits (every single I/O failure of every commit) and what follows
	// them: the physical rollback must leave the pages of the reader's version - incl. its freelist page, which only
	// a backup reads - out of the allocator's reach
	hx.Registry["c14-fault"] = func(tier string) []*hx.Scope {
		scs := mkC08w("c14-fault", 1, 1<<20, backupAlphabet)(tier)
		for _, s := range scs {
			s.Boundary = nil
		}
		return scs
	}
}

// C14: hot backups are complete, valid snapshots.
func C14(tier string) int {
	return RunMC(MCCheck{
		Prop: "C14", Level: "model_checking",
		Drivers:     []MCDriver{{Name: "backup", Params: []string{"array", "hashmap"}, Quick: 2, Thorough: 3}},
		Rule:        "(b) stateless depth-first exploration of every schedule with at most the stated number of preemptions of a reader thread running Tx.WriteTo into a writer whose every Write call is a scheduling point (database of more than 32 KiB, i.e. several chunks) against a writer thread committing two transactions that free and reuse pages; scheduling points at every lock operation and I/O call of the real code. (a) explicit-state BFS over event orders (c14-life, reported under hx_*): at every state, through every open reader of any age, WriteTo (into a buffer) and CopyFile are run after 0..k further commits. Oracle in both: bytes produced = returned n = Tx.Size(); the copy decodes with both metas valid and meta 0 winning, equals the reader's version, is accounted for page by page, passes Tx.Check, opens and accepts a commit",
		Assumptions: []string{"the copy reads the file through the descriptor; pages of the reader's version are protected by the reader registration (C02/C06)"},
		Quick:       60 * time.Second, Thorough: 10 * time.Minute,
		Extra: func(tier string, cov map[string]interface{}) []string {
			v := subHX("C14", []string{"c14-life", "c14-fault"}, tier, cov, 60*time.Second, 8*time.Minute)
			return append(v, replacedPath(tier, cov)...)
		},
	}, tier)
}

// replacedPath: a backup taken with a non-zero Tx.WriteFlag re-opens the database by path; when that path has
// meanwhile been replaced by another file (rename), the copy must still be the reader's own snapshot.
func replacedPath(tier string, cov map[string]interface{}) []string {
	var viols []string
	n := 0
	for _, sd := range []string{"twolevel", "nested", "overflow"} {
		for _, flag := range []int{syscall.O_SYNC, syscall.O_NOATIME} {
			for _, replace := range []bool{false, true} {
				sc := &hx.Scope{Seed: Seeds[sd], Cfg: apix.Cfg{PageSize: 1024, Freelist: "array"}}
				data, model, err := hx.BuildSeedFull(sc)
				if err != nil {
					continue
				}
				other := &hx.Scope{Seed: Seeds["freeruns"], Cfg: apix.Cfg{PageSize: 1024, Freelist: "array"}}
				odata, _, err := hx.BuildSeedFull(other)
				if err != nil {
					continue
				}
				path := apix.TempPath(hx.WorkDir())
				_ = os.WriteFile(path, data, 0600)
				msg := func() string {
					db, err := bolt.Open(path, 0600, &bolt.Options{})
					if err != nil {
						return err.Error()
					}
					defer db.Close()
					tx, err := db.Begin(false)
					if err != nil {
						return err.Error()
					}
					defer func() { _ = tx.Rollback() }()
					if replace {
						tmp := path + ".new"
						_ = os.WriteFile(tmp, odata, 0600)
						if err := os.Rename(tmp, path); err != nil {
							return err.Error()
						}
					}
					tx.WriteFlag = flag
					var buf bytes.Buffer
					nw, err := tx.WriteTo(&buf)
					if err != nil {
						return "WriteTo with WriteFlag: " + err.Error()
					}
					if nw != tx.Size() || int64(buf.Len()) != tx.Size() {
						return fmt.Sprintf("WriteTo returned %d, produced %d bytes, Size() %d", nw, buf.Len(), tx.Size())
					}
					return apix.CheckBackup(buf.Bytes(), 1024, model, hx.WorkDir())
				}()
				os.Remove(path)
				n++
				if msg != "" {
					p := evid.Replay("C14", map[string]interface{}{"property": "C14", "engine": "replaced-path", "seed": sd, "write_flag": flag, "path_replaced": replace, "msg": msg})
					viols = append(viols, p)
					evid.Violation("C14", p)
					fmt.Printf("  backup with WriteFlag %#x, database path replaced by rename: %v, seed %s: %s\n", flag, replace, sd, msg)
				}
			}
		}
	}
	cov["write_flag_backups"] = n
	hx.CleanWorkDir()
	return viols
}
