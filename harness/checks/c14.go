package checks

import (
	"fmt"
	"strings"
	"time"

	bolt "go.etcd.io/bbolt"
	"go.etcd.io/bbolt/zverif/apix"
	"go.etcd.io/bbolt/zverif/hx"
	"go.etcd.io/bbolt/zverif/mc"
	"go.etcd.io/bbolt/zverif/refmodel"
	"go.etcd.io/bbolt/zverif/vsync"
)

// ---- C14: hot backups ----

// backupAlphabet: the lifecycle alphabet plus a backup (WriteTo / CopyFile) through every open reader.
func backupAlphabet(base func(x *apix.Exec, t *hx.Track, left int) []apix.Op) func(x *apix.Exec, t *hx.Track, left int) []apix.Op {
	return func(x *apix.Exec, t *hx.Track, left int) []apix.Op {
		ops := base(x, t, left)
		if left <= 0 {
			return ops
		}
		for i, r := range x.Readers {
			if r != nil {
				ops = append(ops, apix.Op{K: "backup", N: i}, apix.Op{K: "copyfile", N: i})
			}
		}
		return ops
	}
}

// yieldWriter collects the bytes and makes every Write call a scheduling point.
type yieldWriter struct {
	buf    []byte
	writes int
}

func (w *yieldWriter) Write(p []byte) (int, error) {
	vsync.Yield()
	w.buf = append(w.buf, p...)
	w.writes++
	vsync.Yield()
	return len(p), nil
}

// backupDriver: a reader thread copies the database with WriteTo while a writer thread commits transactions that
// free and reuse pages.
func backupDriver(param string) mc.Driver {
	ps, flt := parseParam(param)
	return func(s *vsync.Session) mc.Outcome {
		e, err := openEnv(s, ps, flt, 110, nil)
		if err != nil {
			return mc.Outcome{Fail: "open: " + err.Error()}
		}
		model := refmodel.New()
		c := refmodel.New()
		model.Ent["c"] = &refmodel.Ent{Sub: c}
		_ = e.db.View(func(tx *bolt.Tx) error {
			return tx.Bucket([]byte("c")).ForEach(func(k, v []byte) error { _ = c.Put(string(k), v); return nil })
		})
		versions := map[int]*refmodel.Node{e.id0: model.Clone()}
		var obs []string
		vsync.GoNamed("W", func() {
			for t := 1; t <= 2; t++ {
				err := e.db.Update(func(tx *bolt.Tx) error {
					b := tx.Bucket([]byte("c"))
					m2 := model.Clone()
					mc2 := m2.Ent["c"].Sub
					for i := 0; i < 6; i++ {
						k := fmt.Sprintf("k%03d", (t*37+i*17)%110)
						v := []byte(strings.Repeat(fmt.Sprint(t), ps*3/10))
						if err := b.Put([]byte(k), v); err != nil {
							return err
						}
						_ = mc2.Put(k, v)
					}
					_ = b.Delete([]byte(fmt.Sprintf("k%03d", t)))
					_ = mc2.Delete(fmt.Sprintf("k%03d", t))
					versions[tx.ID()] = m2
					model = m2
					return nil
				})
				if err != nil {
					e.failf("update %d: %v", t, err)
				}
			}
		})
		vsync.GoNamed("R", func() {
			vsync.Yield()
			tx, err := e.db.Begin(false)
			if err != nil {
				e.failf("Begin: %v", err)
				return
			}
			id := tx.ID()
			w := &yieldWriter{}
			n, err := tx.WriteTo(w)
			size := tx.Size()
			if err != nil {
				e.failf("WriteTo: %v", err)
			} else if n != size || int64(len(w.buf)) != size {
				e.failf("WriteTo returned %d and produced %d bytes, Size() is %d", n, len(w.buf), size)
			} else if want := versions[id]; want == nil {
				e.failf("reader id %d names no version", id)
			} else {
				apix.SetTap(nil)
				if msg := apix.CheckBackup(w.buf, ps, want, hx.WorkDir()); msg != "" {
					e.failf("backup of version %d taken while the writer was committing: %s", id, msg)
				}
				apix.SetTap(e.tap)
			}
			obs = append(obs, fmt.Sprintf("backup@%d/%dchunks", id-e.id0, w.writes))
			_ = tx.Rollback()
		})
		vsync.Join()
		e.close()
		o := e.outcome()
		o.Obs = strings.Join(obs, " ")
		return o
	}
}

func init() {
	mc.Registry["backup"] = backupDriver
	hx.Registry["c14-life"] = func(tier string) []*hx.Scope {
		n, maxTx := 6, 2
		seeds := []string{"twolevel", "freeruns"}
		if tier == "thorough" {
			n, maxTx = 8, 3
			seeds = []string{"inline", "twolevel", "overflow", "freeruns", "nested"}
		}
		cs := cfgsAcct(tier)
		for i := range cs {
			cs[i].InitialMmapSize = 1 << 20
		}
		return mk("c14-life", seeds, cs, n, 1, backupAlphabet(lifeAlphabet(2, lifeBodies, nil, maxTx)), nil)
	}
}

// C14: hot backups are complete, valid snapshots.
func C14(tier string) int {
	return RunMC(MCCheck{
		Prop: "C14", Level: "model_checking",
		Drivers:     []MCDriver{{Name: "backup", Params: []string{"array", "hashmap"}, Quick: 2, Thorough: 3}},
		Rule:        "(b) stateless depth-first exploration of every schedule with at most the stated number of preemptions of a reader thread running Tx.WriteTo into a writer whose every Write call is a scheduling point (database of more than 32 KiB, i.e. several chunks) against a writer thread committing two transactions that free and reuse pages; scheduling points at every lock operation and I/O call of the real code. (a) explicit-state BFS over event orders (c14-life, reported under hx_*): at every state, through every open reader of any age, WriteTo (into a buffer) and CopyFile are run after 0..k further commits. Oracle in both: bytes produced = returned n = Tx.Size(); the copy decodes with both metas valid and meta 0 winning, equals the reader's version, is accounted for page by page, passes Tx.Check, opens and accepts a commit",
		Assumptions: []string{"the copy reads the file through the descriptor; pages of the reader's version are protected by the reader registration (C02/C06)"},
		Quick:       60 * time.Second, Thorough: 20 * time.Minute,
		Extra: func(tier string, cov map[string]interface{}) []string {
			return subHX("C14", []string{"c14-life"}, tier, cov, 60*time.Second, 15*time.Minute)
		},
	}, tier)
}
