package checks

import (
	"fmt"
	"strconv"
	"strings"
	"time"

	bolt "go.etcd.io/bbolt"
	"go.etcd.io/bbolt/zverif/mc"
	"go.etcd.io/bbolt/zverif/vsync"
)

// batchDriver param: "s<size>,d<delay ms>,<mode>-<mode>[-<mode>]"; mode: ok | e1 | e2 | eA | p1 | pA
// (error / panic on the first, second or every invocation).
func batchDriver(param string) mc.Driver {
	size, delay := 2, 10
	var modes []string
	for _, f := range strings.Split(param, ",") {
		switch {
		case strings.HasPrefix(f, "s"):
			size, _ = strconv.Atoi(f[1:])
		case strings.HasPrefix(f, "d"):
			delay, _ = strconv.Atoi(f[1:])
		default:
			modes = strings.Split(f, "-")
		}
	}
	return func(s *vsync.Session) mc.Outcome {
		e, err := openEnv(s, 1024, "array", 0, nil)
		if err != nil {
			return mc.Outcome{Fail: "open: " + err.Error()}
		}
		e.db.MaxBatchSize = size
		e.db.MaxBatchDelay = time.Duration(delay) * time.Millisecond
		n := len(modes)
		results := make([]string, n)
		calls := make([]int, n)
		txids := make([][]int, n) // transaction in which each invocation ran (shows which callers shared a batch)
		for i := 0; i < n; i++ {
			i := i
			mode := modes[i]
			key := []byte(fmt.Sprintf("c%d", i))
			vsync.GoNamed(fmt.Sprintf("B%d", i), func() {
				defer func() {
					if p := recover(); p != nil {
						if fmt.Sprint(p) == "boom" {
							results[i] = "panic"
						} else {
							results[i] = "panic"
							e.failf("caller %d: unexpected panic %v", i, p)
						}
					}
				}()
				err := e.db.Batch(func(tx *bolt.Tx) error {
					calls[i]++
					txids[i] = append(txids[i], tx.ID()-e.id0)
					b := tx.Bucket([]byte("c"))
					v := getInt(b, string(key))
					if v < 0 {
						v = 0
					}
					if err := b.Put(key, []byte(strconv.Itoa(v+1))); err != nil {
						return err
					}
					bad := false
					switch mode[1:] {
					case "1":
						bad = calls[i] == 1
					case "2":
						bad = calls[i] == 2
					case "A":
						bad = true
					}
					if bad && mode[0] == 'e' {
						return fmt.Errorf("own error %d", i)
					}
					if bad && mode[0] == 'p' {
						panic("boom")
					}
					return nil
				})
				switch {
				case err == nil:
					results[i] = "nil"
				case err.Error() == fmt.Sprintf("own error %d", i):
					results[i] = "err"
				case strings.Contains(err.Error(), "re-run solo"):
					results[i] = "sentinel"
					e.failf("caller %d received the internal trySolo sentinel", i)
				case strings.Contains(err.Error(), "boom"):
					results[i] = "panic-as-error"
				default:
					results[i] = "other:" + err.Error()
					e.failf("caller %d received a foreign error: %v", i, err)
				}
			})
		}
		vsync.Join()
		_ = e.db.View(func(tx *bolt.Tx) error {
			b := tx.Bucket([]byte("c"))
			for i := 0; i < n; i++ {
				v := getInt(b, fmt.Sprintf("c%d", i))
				if v < 0 {
					v = 0
				}
				want := 0
				if results[i] == "nil" {
					want = 1
				}
				if v != want {
					e.failf("caller %d: Batch returned %q after %d invocation(s) but its counter is %d (want %d)", i, results[i], calls[i], v, want)
				}
				if results[i] == "" {
					e.failf("caller %d never returned", i)
				}
			}
			return nil
		})
		e.close()
		o := e.outcome()
		o.Obs = strings.Join(results, ",") + fmt.Sprint(calls) + fmt.Sprint(txids)
		return o
	}
}

func init() { mc.Registry["batch"] = batchDriver }

// C16: Batch applies each successful function exactly once.
func C16(tier string) int {
	var params []string
	sizes := []string{"s0", "s1", "s2", "s3"}
	mixes := []string{"ok-ok", "ok-e1", "e1-ok", "ok-eA", "p1-ok", "ok-pA", "e1-e1", "e2-ok"}
	if tier == "thorough" {
		mixes = append(mixes, "ok-ok-ok", "ok-e1-ok", "e1-ok-p1", "eA-ok-ok", "ok-ok-pA", "e2-e1-ok")
	} else {
		mixes = append(mixes, "ok-e1-ok")
	}
	for _, s := range sizes {
		for _, m := range mixes {
			for _, d := range []string{"d0", "d10"} {
				if tier != "thorough" && d == "d0" && s != "s2" {
					continue
				}
				params = append(params, s+","+d+","+m)
			}
		}
	}
	var two, three []string
	for _, p := range params {
		if strings.Count(p, "-") >= 2 {
			three = append(three, p)
		} else {
			two = append(two, p)
		}
	}
	return RunMC(MCCheck{
		Prop: "C16", Level: "model_checking",
		Drivers:     []MCDriver{{Name: "batch", Params: two, Quick: 2, Thorough: 4, Delay: true}, {Name: "batch", Params: three, Quick: 2, Thorough: 3, Delay: true}},
		Rule:        "stateless depth-first exploration of every schedule with at most the stated number of deviations from the default schedule (delay bounding: a deviation is any non-default choice - preempting the running thread, picking another than the first enabled thread when it blocks or ends, or letting a timer fire early) of 2-3 concurrent Batch callers whose functions increment their own counter and succeed / return an error / panic on the first, second or every invocation, for MaxBatchSize 0..3 and MaxBatchDelay 0 / 10ms; the batch timer is a virtual-time pseudo-thread, the trigger goroutine and result channels are scheduled objects; oracle per caller: nil => counter +1 exactly, own error or panic => +0, never a foreign error or the trySolo sentinel, no deadlock",
		Assumptions: []string{"virtual time: a timer may fire at any scheduling point (costing one deviation while another thread is runnable)"},
		Quick:       100 * time.Second, Thorough: 10 * time.Minute,
	}, tier)
}
