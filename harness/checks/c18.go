package checks

import (
	"encoding/json"
	"fmt"
	"os"
	"strings"
	"time"

	"go.etcd.io/bbolt/zverif/apix"
	"go.etcd.io/bbolt/zverif/evid"
	"go.etcd.io/bbolt/zverif/hx"
	"go.etcd.io/bbolt/zverif/par"
)

// ---- C18: the data file never grows beyond MaxSize ----

type c18Job struct {
	PS     int    `json:"ps"`
	Alloc  int    `json:"alloc"`
	Imm    int    `json:"imm"`
	Limits []int  `json:"limits"`
	FL     string `json:"fl"`
	Replay bool   `json:"replay"`
	Work   int    `json:"work"`
}

type c18Res struct {
	Runs     int     `json:"runs"`
	Ops      int     `json:"ops"`
	Rejected int     `json:"rejected"` // transactions refused with ErrMaxSizeReached
	Grown    int     `json:"grown"`    // runs in which the file grew at least once
	Fail     string  `json:"fail,omitempty"`
	FailJob  *c18Job `json:"fail_job,omitempty"`
	Note     string  `json:"note,omitempty"`
	Err      string  `json:"err,omitempty"`
}

// c18Workloads: each is a list of transactions (each a list of ops); the run continues after a rejected one.
func c18Workloads() [][][]apix.Op {
	fillTx := func(prefix string, n int, class string) []apix.Op {
		return []apix.Op{beginW, {K: "fill", P: P("p"), Key: prefix, V: class, N: n}, commit}
	}
	var w [][][]apix.Op
	// 0: macro fills that cross every growth step
	var a [][]apix.Op
	a = append(a, []apix.Op{beginW, op("mkb", nil, "p", ""), commit})
	for i := 0; i < 14; i++ {
		a = append(a, fillTx(fmt.Sprintf("f%02d", i), 8, "M"))
	}
	w = append(w, a)
	// 1: single huge values
	var b [][]apix.Op
	b = append(b, []apix.Op{beginW, op("mkb", nil, "p", ""), commit})
	for i := 0; i < 8; i++ {
		b = append(b, []apix.Op{beginW, op("put", P("p"), fmt.Sprintf("h%d", i), "Y"), commit})
		b = append(b, []apix.Op{beginW, op("put", P("p"), "small", "s"), commit})
	}
	w = append(w, b)
	// 2: many small transactions with overwrites and deletes
	var c [][]apix.Op
	c = append(c, []apix.Op{beginW, op("mkb", nil, "p", ""), commit})
	for i := 0; i < 24; i++ {
		c = append(c, []apix.Op{beginW, op("put", P("p"), fmt.Sprintf("k%02d", i%9), "M"), op("put", P("p"), "x", "X"), commit})
		if i%5 == 4 {
			c = append(c, []apix.Op{beginW, {K: "drain", P: P("p")}, commit})
		}
	}
	w = append(w, c)
	// 3..5: creeping growth - every transaction adds one new key, the high-water mark moves up a page at a time, so that
	// single-page allocations at the end of the file land on EVERY page id in turn (in particular exactly on the last
	// page of the current map, the case in which a remap and the size pre-check must agree); three phases shift which
	// allocation of a transaction is the last one at the end of the file
	for phase := 0; phase < 3; phase++ {
		var d [][]apix.Op
		first := []apix.Op{beginW, op("mkb", nil, "p", "")}
		for k := 0; k < phase; k++ {
			first = append(first, op("put", P("p"), fmt.Sprintf("shift%d", k), "M"))
		}
		d = append(d, append(first, commit))
		for i := 0; i < 36; i++ {
			d = append(d, []apix.Op{beginW, op("put", P("p"), fmt.Sprintf("c%02d", i), "M"), commit})
		}
		w = append(w, d)
	}
	return w
}

func fileLen(path string) int64 {
	fi, err := os.Stat(path)
	if err != nil {
		return -1
	}
	return fi.Size()
}

// c18Run executes one workload under one limit. pre: transactions run before the limit is imposed (file already
// above the limit at open).
func c18Run(job c18Job, limit int, work int, pre int, res *c18Res) string {
	path := apix.TempPath(hx.WorkDir())
	defer os.Remove(path)
	txs := c18Workloads()[work]
	cfg := apix.Cfg{PageSize: job.PS, Freelist: job.FL, AllocSize: job.Alloc, InitialMmapSize: job.Imm}
	var x *apix.Exec
	var f *apix.Fail
	if pre > 0 {
		c0 := cfg
		c0.InitialMmapSize = 0
		x, f = apix.NewExec(path, c0, nil)
		if f != nil {
			return "harness: " + f.Error()
		}
		for _, tx := range txs[:pre] {
			for _, o := range tx {
				if f := x.Do(o); f != nil {
					return "harness (unlimited prefix): " + f.Error()
				}
			}
		}
		model, id := x.Committed, x.CommittedID
		x.Close()
		cfg.MaxSize = limit
		x, f = apix.NewExec(path, cfg, model)
		if f != nil {
			return fmt.Sprintf("reopen of a file of %d bytes with MaxSize %d: %v", fileLen(path), limit, f)
		}
		if x.CommittedID != id {
			return fmt.Sprintf("txid changed across reopen: %d -> %d", id, x.CommittedID)
		}
		txs = txs[pre:]
	} else {
		cfg.MaxSize = limit
		x, f = apix.NewExec(path, cfg, nil)
		if f != nil {
			// a limit too small to hold even the initial file is outside the statement
			if strings.Contains(f.Msg, "ErrMaxSizeReached") {
				return ""
			}
			return fmt.Sprintf("open with MaxSize %d: %v", limit, f)
		}
	}
	defer x.Close()
	res.Runs++
	atOpen := fileLen(path)
	bound := int64(limit)
	if atOpen > bound {
		bound = atOpen
	}
	grew := false
	x.OnBoundary = func(x *apix.Exec, kind string) *apix.Fail {
		_, f := x.CheckFile("after " + kind)
		return f
	}
	for ti, tx := range txs {
		lenBefore := fileLen(path)
		rejected := false
		for _, o := range tx {
			res.Ops++
			f := x.Do(o)
			if l := fileLen(path); l > bound {
				return fmt.Sprintf("transaction %d, op %s: file is %d bytes long, limit %d (length at open %d)", ti, o, l, limit, atOpen)
			}
			if f != nil {
				if f.Kind == "error" && f.Msg == "commit: ErrMaxSizeReached" {
					rejected = true
					res.Rejected++
					continue
				}
				return fmt.Sprintf("transaction %d: %v", ti, f)
			}
		}
		if rejected {
			if l := fileLen(path); l != lenBefore {
				return fmt.Sprintf("transaction %d was refused with ErrMaxSizeReached but the file length changed %d -> %d", ti, lenBefore, l)
			}
			if f := x.CheckCommitted("after the refused transaction"); f != nil {
				return f.Error()
			}
			if _, f := x.CheckFile("after the refused transaction"); f != nil {
				return f.Error()
			}
		} else if fileLen(path) > lenBefore {
			grew = true
		}
	}
	if grew {
		res.Grown++
	}
	// close and reopen: content and accounting unchanged, a small transaction is either accepted or refused cleanly
	if f := x.Do(apix.Op{K: "reopen"}); f != nil {
		return "reopen at the end: " + f.Error()
	}
	if l := fileLen(path); l > bound {
		return fmt.Sprintf("after reopen the file is %d bytes long, limit %d", l, limit)
	}
	for _, o := range []apix.Op{beginW, op("mkbi", nil, "p", ""), op("put", P("p"), "zz", "s"), commit} {
		f := x.Do(o)
		if l := fileLen(path); l > bound {
			return fmt.Sprintf("final small transaction: file is %d bytes long, limit %d", l, limit)
		}
		if f != nil && !(f.Kind == "error" && f.Msg == "commit: ErrMaxSizeReached") {
			return "final small transaction: " + f.Error()
		}
	}
	return ""
}

func c18Work(job c18Job) c18Res {
	var res c18Res
	for _, lim := range job.Limits {
		for wk := range c18Workloads() {
			if job.Replay && wk != job.Work {
				continue
			}
			for _, pre := range []int{0, 5} {
				if msg := c18Run(job, lim, wk, pre, &res); msg != "" {
					res.Fail = fmt.Sprintf("MaxSize %d, AllocSize %d, InitialMmapSize %d, page size %d, workload %d, %d transaction(s) before the limit was set: %s", lim, job.Alloc, job.Imm, job.PS, wk, pre, msg)
					fj := job
					fj.Limits, fj.Replay, fj.Work = []int{lim}, true, wk
					res.FailJob = &fj
					if job.Imm > lim {
						res.Note = "F7"
					}
					return res
				}
			}
		}
	}
	return res
}

func init() {
	f := func(b []byte) []byte {
		var j c18Job
		_ = json.Unmarshal(b, &j)
		r := c18Work(j)
		out, _ := json.Marshal(r)
		return out
	}
	JobFuncs["c18"] = f
	WorkerKinds["c18"] = func() { defer hx.CleanWorkDir(); par.Serve(f) }
}

// C18 runs the size-limit sweep.
func C18(tier string) int {
	start := time.Now()
	LoadFindings()
	var meta []c18Job
	sizes := []int{1024, 4096}
	allocs := []int{0, 4096, 3000}
	imms := []int{0, 64 << 10, 200000, 8 << 20}
	step := 2048
	if tier == "thorough" {
		step = 512
	}
	for _, ps := range sizes {
		var limits []int
		for l := 4 * ps; l <= 96<<10; l += step {
			limits = append(limits, l)
		}
		limits = append(limits, 100000, 1<<20, 1<<20+777, 3<<20)
		for _, al := range allocs {
			for _, imm := range imms {
				if imm == 8<<20 && al != 0 {
					continue
				}
				for lo := 0; lo < len(limits); lo += 6 {
					hi := lo + 6
					if hi > len(limits) {
						hi = len(limits)
					}
					flt := "array"
					if (lo/6)%2 == 1 {
						flt = "hashmap"
					}
					meta = append(meta, c18Job{PS: ps, Alloc: al, Imm: imm, Limits: limits[lo:hi], FL: flt})
				}
			}
		}
	}
	var jobs [][]byte
	for _, j := range meta {
		b, _ := json.Marshal(j)
		jobs = append(jobs, b)
	}
	pool := par.NewPool(Workers(), "worker", "c18")
	pool.Timeout = 10 * time.Minute
	defer pool.Close()
	runs, ops, rejected, grown := 0, 0, 0, 0
	var viols, errs []string
	known := map[string]*Finding{}
	_ = pool.Run(jobs, func(r par.Result) {
		j := meta[r.Idx]
		if r.Died || r.Hung {
			errs = append(errs, fmt.Sprintf("worker died/hung on %+v: %s", j, lastLine(r.Stderr)))
			return
		}
		var res c18Res
		if err := json.Unmarshal(r.Out, &res); err != nil {
			errs = append(errs, err.Error())
			return
		}
		runs += res.Runs
		ops += res.Ops
		rejected += res.Rejected
		grown += res.Grown
		if res.Fail != "" {
			if f := MatchFinding("C18", []string{res.Note}, "mismatch", res.Fail); f != nil {
				known[f.ID] = f
				return
			}
			if len(viols) < 5 {
				p := evid.Replay("C18", map[string]interface{}{"property": "C18", "engine": "c18", "job": res.FailJob, "msg": res.Fail})
				viols = append(viols, p)
				evid.Violation("C18", p)
				fmt.Println("  " + res.Fail)
			}
		}
	})
	for _, id := range keys(known) {
		fmt.Printf("KNOWN-FINDING: property=C18 %s: %s\n", id, known[id].What)
	}
	cov := map[string]interface{}{
		"states": runs, "transitions": ops, "traces_validated_against_impl": ops, "evaluations": runs, "distinct_nontrivial": rejected + grown,
		"rule":       fmt.Sprintf("exhaustive enumeration of configurations: MaxSize = every multiple of %d from four pages to 96 KiB plus 100000, 1 MiB, 1 MiB+777 and 3 MiB, x AllocSize {default, 4096, 3000} x InitialMmapSize {0, 64 KiB, 200000, 8 MiB} x page size {1024, 4096} x six workloads (fills crossing every growth step, 5-page values, many small overwriting transactions, three phases of creeping growth that put single-page allocations on every page id in turn) x {limit from the start, limit imposed on a file that already holds 5 transactions}; after every operation the file length is compared with max(MaxSize, length at open); every transaction must commit or be refused with ErrMaxSizeReached leaving content, page accounting and file length unchanged; afterwards reopen and a small transaction; each run is compared op by op with the reference model", step),
		"samples":    []string{"ps 1024, AllocSize 3000, InitialMmapSize 200000, MaxSize 34816, workload 0", "ps 4096, MaxSize 1049353 (1 MiB + 777), workload 1 on a file that already holds 5 transactions"},
		"exhaustive": len(errs) == 0, "harness_errors": errs, "transactions_refused": rejected, "runs_in_which_the_file_grew": grown, "known_findings_seen": keys(known),
	}
	ev := &evid.Evidence{PropertyID: "C18", Tier: tier, Level: "model_checking", Coverage: cov, Violations: len(viols),
		Assumptions: []string{"a limit below the size of an empty database is outside the statement"}}
	if err := ev.Write(start); err != nil {
		return 2
	}
	for i, e := range errs {
		if i < 5 {
			fmt.Fprintln(os.Stderr, "harness error:", e)
		}
	}
	if len(viols) > 0 {
		return 1
	}
	if len(errs) > 0 {
		return 2
	}
	fmt.Printf("C18 %s: OK runs=%d ops=%d refused=%d grew=%d wall=%.1fs\n", tier, runs, ops, rejected, grown, time.Since(start).Seconds())
	return 0
}
