package checks

import (
	"bufio"
	"bytes"
	"crypto/sha256"
	"encoding/json"
	"fmt"
	"io"
	"os"
	"os/exec"
	"path/filepath"
	"runtime/debug"
	"strconv"
	"strings"
	"time"

	bolt "go.etcd.io/bbolt"
	"go.etcd.io/bbolt/zverif/apix"
	"go.etcd.io/bbolt/zverif/boltfmt"
	"go.etcd.io/bbolt/zverif/evid"
	"go.etcd.io/bbolt/zverif/hx"
	"go.etcd.io/bbolt/zverif/mc"
	"go.etcd.io/bbolt/zverif/par"
	"go.etcd.io/bbolt/zverif/vsync"
)

// ---- C17: file locks and read-only mode protect the file ----

// (a) lock table over event sequences ------------------------------------------------------------

type lockEvent struct {
	H int    // handle 0..2
	A string // rw | ro | close
}

func (e lockEvent) String() string { return fmt.Sprintf("h%d.%s", e.H, e.A) }

// opener abstracts "a handle": in this process, or a helper process.
type opener interface {
	open(path string, ro bool) string // "" ok, else error name
	close() string
	isOpen() bool
}

type localHandle struct{ db *bolt.DB }

func (l *localHandle) open(path string, ro bool) string {
	db, err := bolt.Open(path, 0600, &bolt.Options{ReadOnly: ro, Timeout: time.Millisecond})
	if err != nil {
		return apix.ErrName(err)
	}
	l.db = db
	return ""
}
func (l *localHandle) close() string {
	err := l.db.Close()
	l.db = nil
	if err != nil {
		return err.Error()
	}
	return ""
}
func (l *localHandle) isOpen() bool { return l.db != nil }

type remoteHandle struct {
	cmd    *exec.Cmd
	in     io.WriteCloser
	out    *bufio.Reader
	opened bool
}

func newRemote() (*remoteHandle, error) {
	cmd := exec.Command(os.Args[0], "worker", "c17h")
	cmd.Env = append(os.Environ(), "GOMAXPROCS=1")
	in, _ := cmd.StdinPipe()
	out, _ := cmd.StdoutPipe()
	if err := cmd.Start(); err != nil {
		return nil, err
	}
	return &remoteHandle{cmd: cmd, in: in, out: bufio.NewReader(out)}, nil
}

func (r *remoteHandle) call(s string) string {
	fmt.Fprintln(r.in, s)
	line, err := r.out.ReadString('\n')
	if err != nil {
		return "helper died: " + err.Error()
	}
	return strings.TrimSpace(strings.TrimPrefix(strings.TrimSpace(line), "="))
}
func (r *remoteHandle) open(path string, ro bool) string {
	res := r.call(fmt.Sprintf("open %v %s", ro, path))
	if res == "" {
		r.opened = true
	}
	return res
}
func (r *remoteHandle) close() string { r.opened = false; return r.call("close") }
func (r *remoteHandle) isOpen() bool  { return r.opened }
func (r *remoteHandle) kill()         { r.in.Close(); _ = r.cmd.Process.Kill(); _ = r.cmd.Wait() }

// helper process: one handle driven over stdin/stdout
func c17Helper() {
	sc := bufio.NewScanner(os.Stdin)
	var h localHandle
	for sc.Scan() {
		f := strings.SplitN(sc.Text(), " ", 3)
		switch f[0] {
		case "open":
			fmt.Println("=" + h.open(f[2], f[1] == "true"))
		case "close":
			fmt.Println("=" + h.close())
		}
	}
}

// lockSequences enumerates every valid event sequence up to n events and checks each Open result against the
// lock table: a read-write holder excludes everyone, read-only holders exclude read-write, close releases.
func lockSequences(path string, hs []opener, n int, count *int, opens *int) string {
	var seq []lockEvent
	var rec func(depth int, mode [3]string) string
	rec = func(depth int, mode [3]string) string {
		if depth == n {
			return ""
		}
		for h := 0; h < 3; h++ {
			for _, a := range []string{"rw", "ro", "close"} {
				if (a == "close") != (mode[h] != "") {
					continue // close only an open handle, open only a closed one
				}
				seq = append(seq, lockEvent{h, a})
				*count++
				nm := mode
				if a == "close" {
					if msg := hs[h].close(); msg != "" {
						return fmt.Sprintf("%v: Close failed: %s", seq, msg)
					}
					nm[h] = ""
				} else {
					*opens++
					rwHeld, roHeld := false, false
					for _, m := range mode {
						rwHeld = rwHeld || m == "rw"
						roHeld = roHeld || m == "ro"
					}
					want := ""
					if rwHeld || (a == "rw" && roHeld) {
						want = "ErrTimeout"
					}
					got := hs[h].open(path, a == "ro")
					if got != want {
						if got == "" {
							_ = hs[h].close()
						}
						return fmt.Sprintf("events %v: the last Open returned %q, the lock table says %q (held: %v)", seq, got, want, mode)
					}
					if got == "" {
						nm[h] = a
					}
				}
				if msg := rec(depth+1, nm); msg != "" {
					return msg
				}
				// undo
				if a == "close" {
					if got := hs[h].open(path, mode[h] == "ro"); got != "" {
						return fmt.Sprintf("events %v: could not restore handle %d (%s)", seq, h, got)
					}
				} else if nm[h] != "" {
					_ = hs[h].close()
				}
				seq = seq[:len(seq)-1]
			}
		}
		return ""
	}
	return rec(0, [3]string{})
}

// blocking open without timeout, under the controlled scheduler with virtual time
func lockDriver(param string) mc.Driver {
	return func(s *vsync.Session) mc.Outcome {
		path := apix.TempPath(hx.WorkDir())
		defer os.Remove(path)
		_ = os.WriteFile(path, concSeed(1024, "array", 0), 0600)
		var fails []string
		var order []string
		holderClosed := false
		first := param != "ro-first"
		a, err := bolt.Open(path, 0600, &bolt.Options{ReadOnly: !first})
		if err != nil {
			return mc.Outcome{Fail: "first open: " + err.Error()}
		}
		vsync.GoNamed("holder", func() {
			vsync.Yield()
			vsync.Yield()
			holderClosed = true
			order = append(order, "holder-closes")
			if err := a.Close(); err != nil {
				fails = append(fails, "holder close: "+err.Error())
			}
		})
		vsync.GoNamed("opener", func() {
			b, err := bolt.Open(path, 0600, &bolt.Options{}) // no timeout: waits for the lock
			if err != nil {
				fails = append(fails, "blocking open failed: "+err.Error())
				return
			}
			order = append(order, "opener-got-lock")
			if !holderClosed {
				fails = append(fails, "a read-write Open succeeded while another handle still held the file")
			}
			_ = b.Close()
		})
		vsync.Join()
		o := mc.Outcome{Obs: strings.Join(order, ",")}
		if len(fails) > 0 {
			o.Fail = strings.Join(fails, " | ")
		}
		return o
	}
}

// (b) read-only databases never change a byte ---------------------------------------------------------

var roCalls = []string{"begin-true", "update", "batch", "view-put", "view-createbucket", "view-deletebucket", "view-delete", "view-setseq", "view-nextseq", "view-cursor-delete", "check", "writeto", "copyfile", "stats", "sync", "info", "view-dump"}

func roCall(db *bolt.DB, call string, dir string) string {
	bad := func(err error, want string) string {
		if apix.ErrName(err) != want {
			return fmt.Sprintf("%s returned %v, want %s", call, err, want)
		}
		return ""
	}
	firstBucket := func(tx *bolt.Tx) (*bolt.Bucket, []byte) {
		var b *bolt.Bucket
		var name []byte
		_ = tx.ForEach(func(n []byte, bk *bolt.Bucket) error {
			if b == nil {
				b, name = bk, append([]byte{}, n...)
			}
			return nil
		})
		return b, name
	}
	switch call {
	case "begin-true":
		_, err := db.Begin(true)
		return bad(err, "ErrDatabaseReadOnly")
	case "update":
		return bad(db.Update(func(tx *bolt.Tx) error { return nil }), "ErrDatabaseReadOnly")
	case "batch":
		return bad(db.Batch(func(tx *bolt.Tx) error { return nil }), "ErrDatabaseReadOnly")
	case "check":
		msg := ""
		_ = db.View(func(tx *bolt.Tx) error {
			for e := range vsync.RecvFrom(tx.Check()).Range() {
				msg = "Tx.Check: " + e.Error()
			}
			return nil
		})
		return msg
	case "writeto":
		return errStr(db.View(func(tx *bolt.Tx) error { _, err := tx.WriteTo(io.Discard); return err }))
	case "copyfile":
		p := filepath.Join(dir, "copy.db")
		defer os.Remove(p)
		return errStr(db.View(func(tx *bolt.Tx) error { return tx.CopyFile(p, 0600) }))
	case "stats":
		_ = db.Stats()
		return ""
	case "sync":
		return errStr(db.Sync())
	case "info":
		_ = db.Info()
		return ""
	case "view-dump":
		return errStr(db.View(func(tx *bolt.Tx) error {
			_, err := apix.DumpTx(tx, apix.DumpOpts{Backward: true, Gets: true})
			return err
		}))
	}
	// write attempts through a read transaction
	msg := ""
	_ = db.View(func(tx *bolt.Tx) error {
		b, name := firstBucket(tx)
		switch call {
		case "view-createbucket":
			_, err := tx.CreateBucket([]byte("new"))
			msg = bad(err, "ErrTxNotWritable")
			if msg == "" {
				_, err = tx.CreateBucketIfNotExists([]byte("new"))
				msg = bad(err, "ErrTxNotWritable")
			}
		case "view-deletebucket":
			if name != nil {
				msg = bad(tx.DeleteBucket(name), "ErrTxNotWritable")
			}
		}
		if b == nil || msg != "" {
			return nil
		}
		switch call {
		case "view-put":
			msg = bad(b.Put([]byte("a"), []byte("v")), "ErrTxNotWritable")
		case "view-delete":
			msg = bad(b.Delete([]byte("a")), "ErrTxNotWritable")
		case "view-setseq":
			msg = bad(b.SetSequence(99), "ErrTxNotWritable")
		case "view-nextseq":
			_, err := b.NextSequence()
			msg = bad(err, "ErrTxNotWritable")
		case "view-cursor-delete":
			c := b.Cursor()
			if k, _ := c.First(); k != nil {
				msg = bad(c.Delete(), "ErrTxNotWritable")
			}
		}
		return nil
	})
	return msg
}

func errStr(err error) string {
	if err != nil {
		return err.Error()
	}
	return ""
}

// (c) memory handed out by a read transaction is never a writable view -----------------------------------

// pokeAll stores to the first and last byte of every slice a read transaction hands out. Returns counts.
func pokeAll(db *bolt.DB) (slices, faults, private int, msg string) {
	poke := func(b []byte) {
		if len(b) == 0 {
			return
		}
		for _, i := range []int{0, len(b) - 1} {
			slices++
			func() {
				defer func() {
					if r := recover(); r != nil {
						faults++
					}
				}()
				old := b[i]
				b[i] = old ^ 0xFF // faults on a read-only mapping
				private++         // the store went through: it must have hit a private copy (checked by the caller)
			}()
		}
	}
	var walk func(b *bolt.Bucket)
	walk = func(b *bolt.Bucket) {
		c := b.Cursor()
		for k, v := c.First(); k != nil; k, v = c.Next() {
			poke(k)
			if v != nil {
				poke(v)
				poke(b.Get(append([]byte{}, k...)))
			} else {
				walk(b.Bucket(append([]byte{}, k...)))
			}
		}
		_ = b.ForEach(func(k, v []byte) error { poke(k); poke(v); return nil })
	}
	err := db.View(func(tx *bolt.Tx) error {
		return tx.ForEach(func(name []byte, b *bolt.Bucket) error {
			poke(name)
			walk(b)
			return nil
		})
	})
	if err != nil {
		msg = err.Error()
	}
	return
}

type c17Job struct {
	Part  string `json:"part"` // seq-local | seq-remote | ro | poke
	N     int    `json:"n"`
	Seed  string `json:"seed"`
	PS    int    `json:"ps"`
	Calls []int  `json:"calls"`
	NFS   bool   `json:"nfs,omitempty"` // cli: the file was last written without a persisted freelist
}

type c17Res struct {
	Count   int    `json:"count"`
	Opens   int    `json:"opens"`
	Faults  int    `json:"faults"`
	Private int    `json:"private"`
	Fail    string `json:"fail,omitempty"`
	Err     string `json:"err,omitempty"`
}

func c17Work(job c17Job) c17Res {
	var res c17Res
	dir := hx.WorkDir()
	switch job.Part {
	case "seq-local", "seq-remote":
		path := apix.TempPath(dir)
		defer os.Remove(path)
		_ = os.WriteFile(path, concSeed(1024, "array", 0), 0600)
		var hs []opener
		if job.Part == "seq-local" {
			hs = []opener{&localHandle{}, &localHandle{}, &localHandle{}}
		} else {
			for i := 0; i < 3; i++ {
				r, err := newRemote()
				if err != nil {
					res.Err = err.Error()
					return res
				}
				defer r.kill()
				hs = append(hs, r)
			}
		}
		res.Fail = lockSequences(path, hs, job.N, &res.Count, &res.Opens)
	case "ro", "poke":
		sc := &hx.Scope{Seed: Seeds[job.Seed], Cfg: apix.Cfg{PageSize: job.PS, Freelist: "array"}}
		data, err := hx.BuildSeedData(sc)
		if err != nil {
			res.Err = err.Error()
			return res
		}
		path := apix.TempPath(dir)
		defer os.Remove(path)
		_ = os.WriteFile(path, data, 0600)
		before := sha256.Sum256(data)
		unchanged := func(what string) string {
			now, _ := os.ReadFile(path)
			if sha256.Sum256(now) != before || len(now) != len(data) {
				return what + ": the file changed (length or SHA-256)"
			}
			return ""
		}
		if job.Part == "poke" {
			db, err := bolt.Open(path, 0600, &bolt.Options{ReadOnly: true})
			if err != nil {
				res.Err = err.Error()
				return res
			}
			var want bytes.Buffer
			_ = db.View(func(tx *bolt.Tx) error { _, e := tx.WriteTo(&want); return e })
			s, f, p, msg := pokeAll(db)
			res.Count, res.Faults, res.Private = s, f, p
			var got bytes.Buffer
			_ = db.View(func(tx *bolt.Tx) error { _, e := tx.WriteTo(&got); return e })
			db.Close()
			switch {
			case msg != "":
				res.Fail = msg
			case !bytes.Equal(want.Bytes(), got.Bytes()):
				res.Fail = "after storing into the slices handed out by a read transaction the database content read through a new transaction changed"
			default:
				res.Fail = unchanged("after storing into the slices handed out by a read transaction")
			}
			if res.Fail == "" {
				// and the same through a read-write handle's read transaction
				db, err := bolt.Open(path, 0600, &bolt.Options{})
				if err == nil {
					_, f2, p2, _ := pokeAll(db)
					res.Faults += f2
					res.Private += p2
					db.Close()
					res.Fail = unchanged("after storing into slices handed out by a read transaction of a read-write handle")
				}
			}
			return res
		}
		// every program of the given calls on a read-only database
		tapped := &apix.Tap{}
		writes := 0
		tapped.OnIO = append(tapped.OnIO, func(ev *apix.IOEvent) error {
			if ev.Op == bolt.VerifWrite || ev.Op == bolt.VerifTruncate {
				writes++
			}
			return nil
		})
		apix.SetTap(tapped)
		defer apix.SetTap(nil)
		for _, preload := range []bool{false, true} {
			db, err := bolt.Open(path, 0600, &bolt.Options{ReadOnly: true, PreLoadFreelist: preload})
			if err != nil {
				res.Err = err.Error()
				return res
			}
			db.MaxBatchSize, db.MaxBatchDelay = 1, time.Millisecond
			var names []string
			for _, ci := range job.Calls {
				res.Count++
				names = append(names, roCalls[ci])
				if msg := roCall(db, roCalls[ci], dir); msg != "" {
					res.Fail = fmt.Sprintf("read-only database (preload=%v), calls %v: %s", preload, names, msg)
					break
				}
			}
			if err := db.Close(); err != nil && res.Fail == "" {
				res.Fail = "Close of a read-only database: " + err.Error()
			}
			if res.Fail == "" && writes > 0 {
				res.Fail = fmt.Sprintf("read-only database (preload=%v), calls %v: %d write/truncate call(s) were issued to the data file", preload, names, writes)
			}
			if res.Fail == "" {
				res.Fail = unchanged(fmt.Sprintf("read-only database (preload=%v), calls %v", preload, names))
			}
			if res.Fail != "" {
				return res
			}
		}
	case "failopen":
		// an Open that fails (damaged / too small / not a database) must not leave the file locked: the next Open of
		// the repaired file in the same process succeeds at once. GC is off so that a finalizer cannot hide a leak.
		old := debug.SetGCPercent(-1)
		defer debug.SetGCPercent(old)
		good := concSeed(1024, "array", 0)
		bads := map[string][]byte{"too-small": good[:1500], "all-zero": make([]byte, len(good))}
		both := append([]byte{}, good...)
		both[16+20] ^= 0xFF
		both[1024+16+20] ^= 0xFF
		bads["both-metas-damaged"] = both
		ver := append([]byte{}, good...)
		for s := 0; s < 2; s++ {
			m := boltfmt.ParseMeta(ver[s*1024:], s)
			m.Version = 3
			boltfmt.EncodeMeta(ver[s*1024:], m)
		}
		bads["version-mismatch"] = ver
		for name, bad := range bads {
			for _, ro := range []bool{false, true} {
				for _, ro2 := range []bool{false, true} {
					path := apix.TempPath(dir)
					_ = os.WriteFile(path, bad, 0600)
					res.Count++
					db, err := bolt.Open(path, 0600, &bolt.Options{ReadOnly: ro, Timeout: time.Millisecond})
					if err == nil {
						db.Close()
						res.Fail = fmt.Sprintf("Open of a %s file succeeded", name)
						return res
					}
					// a second failing open, then the repaired file
					if _, err2 := bolt.Open(path, 0600, &bolt.Options{ReadOnly: ro2, Timeout: time.Millisecond}); err2 == nil || apix.ErrName(err2) == "ErrTimeout" {
						res.Fail = fmt.Sprintf("%s file: after a failed Open(readOnly=%v) a second Open(readOnly=%v) returned %v (a failed open left the file locked)", name, ro, ro2, err2)
						return res
					}
					_ = os.WriteFile(path, good, 0600)
					db, err = bolt.Open(path, 0600, &bolt.Options{Timeout: time.Millisecond})
					if err != nil {
						res.Fail = fmt.Sprintf("%s file: after failed opens (readOnly=%v, then %v) the repaired file cannot be opened read-write: %v (a failed open left the file locked)", name, ro, ro2, err)
						return res
					}
					db.Close()
					os.Remove(path)
				}
			}
		}
	case "cli":
		sc := &hx.Scope{Seed: Seeds[job.Seed], Cfg: apix.Cfg{PageSize: job.PS, Freelist: "array", NoFreelistSync: job.NFS}}
		data, err := hx.BuildSeedData(sc)
		if err != nil {
			res.Err = err.Error()
			return res
		}
		path := apix.TempPath(dir)
		defer os.Remove(path)
		_ = os.WriteFile(path, data, 0600)
		_ = os.Chmod(path, 0600)
		before := sha256.Sum256(data)
		cmds := [][]string{{"check", path}, {"dump", path, "0"}, {"dump", path, "3"}, {"page", path, "0"}, {"page", path, "3"}, {"page", "--all", path}, {"pages", path},
			{"keys", path, "p"}, {"get", path, "p", "a"}, {"buckets", path}, {"stats", path}, {"inspect", path}, {"info", path}, {"page-item", path, "3", "0"}}
		// every I/O call and every handle the command opens is observed: an inspection command must open read-only
		// (the shared lock and the read-only mapping follow from that, parts seq-* and poke) and must not write, grow or sync
		var seen []string
		t := &apix.Tap{}
		t.OnIO = append(t.OnIO, func(ev *apix.IOEvent) error {
			switch {
			case ev.Op != bolt.VerifMmap:
				seen = append(seen, "issued "+ev.String())
			case !ev.DB.IsReadOnly():
				seen = append(seen, "opened the database read-write")
			}
			return nil
		})
		apix.SetTap(t)
		defer apix.SetTap(nil)
		// a second, read-only handle stays open throughout: inspection must be possible next to other readers
		// (a command asking for the exclusive lock would poll for it forever - caught above before it can happen,
		// because the same command has just run alone)
		for pass := 0; pass < 2; pass++ {
			var other *bolt.DB
			if pass == 1 {
				other, err = bolt.Open(path, 0600, &bolt.Options{ReadOnly: true})
				if err != nil {
					res.Err = "second read-only handle: " + err.Error()
					return res
				}
			}
			for _, c := range cmds {
				res.Count++
				seen = seen[:0]
				code, out := RunCLI(c...)
				now, _ := os.ReadFile(path)
				if sha256.Sum256(now) != before {
					res.Fail = fmt.Sprintf("`bbolt %s` (exit %d) modified the data file (freelist persisted: %v)", c[0], code, !job.NFS)
				} else if len(seen) > 0 {
					res.Fail = fmt.Sprintf("`bbolt %s` (exit %d) %s (freelist persisted: %v)", c[0], code, seen[0], !job.NFS)
				} else if c[0] == "check" && code != 0 {
					res.Fail = fmt.Sprintf("`bbolt check` exits %d on a consistent file: %s", code, lastLine(out))
				}
				if res.Fail != "" {
					if other != nil {
						other.Close()
					}
					return res
				}
			}
			if other != nil {
				other.Close()
			}
		}
	}
	return res
}

func init() {
	f := func(b []byte) []byte {
		var j c17Job
		_ = json.Unmarshal(b, &j)
		r := c17Work(j)
		out, _ := json.Marshal(r)
		return out
	}
	JobFuncs["c17"] = f
	WorkerKinds["c17"] = func() { defer hx.CleanWorkDir(); par.Serve(f) }
	WorkerKinds["c17h"] = c17Helper
	mc.Registry["lock"] = lockDriver
}

// C17 runs the lock / read-only / memory-protection checks.
func C17(tier string) int {
	start := time.Now()
	LoadFindings()
	nLocal, nRemote, depthRO := 6, 5, 2
	seeds := []string{"inline", "twolevel", "nested", "overflow", "bigkeys"}
	if tier == "thorough" {
		nLocal, nRemote, depthRO = 7, 6, 3
		seeds = append(seeds, "leaf", "threelevel", "freeruns")
	}
	type part struct {
		job  c17Job
		env  []string
		pool string
	}
	var jobs1, jobs2 [][]byte
	var meta1, meta2 []c17Job
	add := func(j c17Job, real bool) {
		b, _ := json.Marshal(j)
		if real {
			jobs2 = append(jobs2, b)
			meta2 = append(meta2, j)
		} else {
			jobs1 = append(jobs1, b)
			meta1 = append(meta1, j)
		}
	}
	add(c17Job{Part: "seq-local", N: nLocal}, false)
	add(c17Job{Part: "seq-remote", N: nRemote}, false)
	add(c17Job{Part: "failopen"}, true) // with the real mmap: a leaked mapping keeps a flock alive
	// every program of depthRO calls from the read-only alphabet, on each seed state
	var progs [][]int
	var gen func(p []int)
	gen = func(p []int) {
		if len(p) == depthRO {
			progs = append(progs, append([]int{}, p...))
			return
		}
		for i := range roCalls {
			gen(append(p, i))
		}
	}
	gen(nil)
	for _, sd := range seeds {
		for lo := 0; lo < len(progs); lo += 1 {
			add(c17Job{Part: "ro", Seed: sd, PS: 1024, Calls: progs[lo]}, false)
		}
		add(c17Job{Part: "cli", Seed: sd, PS: 1024}, false)
		add(c17Job{Part: "cli", Seed: sd, PS: 1024, NFS: true}, false)
		for _, ps := range []int{1024, 4096} {
			add(c17Job{Part: "poke", Seed: sd, PS: ps}, true)
		}
	}
	counts := map[string]int{}
	var viols, errs []string
	faults, private := 0, 0
	handle := func(meta []c17Job) func(r par.Result) {
		return func(r par.Result) {
			j := meta[r.Idx]
			if r.Died || r.Hung {
				errs = append(errs, fmt.Sprintf("worker died/hung on %+v: %s", j, lastLine(r.Stderr)))
				return
			}
			var res c17Res
			if err := json.Unmarshal(r.Out, &res); err != nil {
				errs = append(errs, err.Error())
				return
			}
			counts[j.Part] += res.Count
			counts[j.Part+"-opens"] += res.Opens
			faults += res.Faults
			private += res.Private
			if res.Err != "" {
				errs = append(errs, res.Err)
			}
			if res.Fail != "" && len(viols) < 5 {
				p := evid.Replay("C17", map[string]interface{}{"property": "C17", "engine": "c17", "job": j, "msg": res.Fail})
				viols = append(viols, p)
				evid.Violation("C17", p)
				fmt.Println("  " + res.Fail)
			}
		}
	}
	pool := par.NewPool(Workers(), "worker", "c17")
	pool.Timeout = 20 * time.Minute
	_ = pool.Run(jobs1, handle(meta1))
	pool.Close()
	// part (c) needs the real PROT_READ mapping, not the harness' mirror
	pool2 := par.NewPool(Workers(), "worker", "c17")
	pool2.Env = []string{"VERIF_REAL_MMAP=1"}
	_ = pool2.Run(jobs2, handle(meta2))
	pool2.Close()
	// blocking opens (no timeout) under the controlled scheduler with virtual time
	mpool := par.NewPool(Workers(), "worker", "mc")
	mpool.Timeout = 30 * time.Minute
	lockExecs := 0
	for _, p := range []string{"rw-first", "ro-first"} {
		t := mc.Explore(mpool, "lock", p, 2, false, false, start.Add(10*time.Minute))
		lockExecs += t.Execs
		errs = append(errs, t.Errs...)
		for _, v := range t.Viol {
			if len(viols) < 5 {
				path := evid.Replay("C17", map[string]interface{}{"property": "C17", "engine": "mc", "driver": v.Driver, "param": v.Param, "choices": v.Choices, "msg": v.Msg})
				viols = append(viols, path)
				evid.Violation("C17", path)
				fmt.Println("  blocking open: " + v.Msg)
			}
		}
	}
	mpool.Close()
	total := 0
	for k, v := range counts {
		if !strings.HasSuffix(k, "-opens") {
			total += v
		}
	}
	cov := map[string]interface{}{
		"states": total + lockExecs, "transitions": counts["seq-local"] + counts["seq-remote"] + counts["ro"] + counts["cli"] + counts["poke"], "traces_validated_against_impl": total,
		"evaluations": total + lockExecs, "distinct_nontrivial": counts["seq-local-opens"] + counts["seq-remote-opens"] + faults,
		"rule":    "(a) every sequence of at most " + strconv.Itoa(nLocal) + " events from {open read-write, open read-only, close} x 3 handles in one process and of at most " + strconv.Itoa(nRemote) + " events with each handle in its own helper process (1 ms lock timeout), each Open result compared with a lock table; plus every schedule (<= 2 preemptions, virtual time) of an Open without timeout racing the holder's Close; plus failing opens (too small, all-zero, both metas damaged, wrong version; read-write/read-only in every pairing) after which the repaired file must open at once (a failed open must not keep the lock); (b) every program of " + strconv.Itoa(depthRO) + " calls from the read-only alphabet " + strings.Join(roCalls, "/") + " on every seed state, with and without preloaded freelist, and every CLI inspection command: write attempts must return ErrDatabaseReadOnly / ErrTxNotWritable, the I/O hook must see no write or truncate, length and SHA-256 stay the same; (c) with the real PROT_READ mapping: a store to the first and last byte of every key/value slice handed out by a read transaction (Cursor, ForEach, Get, nested and inline buckets) must fault or hit a private copy; file and content unchanged",
		"samples": []string{"h0.rw, h1.ro (ErrTimeout), h0.close, h1.ro, h2.rw (ErrTimeout)", "read-only: update, view-put, check", "poke: seed nested, page size 4096"},
		"counts":  counts, "stores_that_faulted": faults, "stores_that_hit_a_private_copy": private, "blocking_open_schedules": lockExecs,
		"exhaustive": len(errs) == 0, "harness_errors": errs,
	}
	ev := &evid.Evidence{PropertyID: "C17", Tier: tier, Level: "model_checking", Coverage: cov, Violations: len(viols),
		Assumptions: []string{"flock and mmap protection are the kernel's; separate processes are helper processes of the same binary"}}
	if err := ev.Write(start); err != nil {
		return 2
	}
	for i, e := range errs {
		if i < 5 {
			fmt.Fprintln(os.Stderr, "harness error:", e)
		}
	}
	if len(viols) > 0 {
		return 1
	}
	if len(errs) > 0 {
		return 2
	}
	fmt.Printf("C17 %s: OK counts=%v faults=%d private=%d lock-schedules=%d wall=%.1fs\n", tier, counts, faults, private, lockExecs, time.Since(start).Seconds())
	return 0
}
