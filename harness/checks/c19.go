package checks

import (
	"encoding/json"
	"fmt"
	"io"
	"os"
	"os/exec"
	"path/filepath"
	"strings"
	"time"

	bolt "go.etcd.io/bbolt"
	"go.etcd.io/bbolt/cmd/bbolt/command"
	"go.etcd.io/bbolt/zverif/apix"
	"go.etcd.io/bbolt/zverif/boltfmt"
	"go.etcd.io/bbolt/zverif/evid"
	"go.etcd.io/bbolt/zverif/hx"
	"go.etcd.io/bbolt/zverif/par"
	"go.etcd.io/bbolt/zverif/vsync"
)

// ---- C19: the integrity check finds structural corruption and only that ----

// RunCLI runs the bbolt command line tool in-process; a returned error or a panic is a non-zero exit.
func RunCLI(args ...string) (exit int, out string) {
	var sb strings.Builder
	defer func() {
		if r := recover(); r != nil {
			exit = 2
			out = sb.String() + fmt.Sprintf("\npanic: %v", r)
		}
	}()
	cmd := command.NewRootCommand()
	cmd.SetArgs(args)
	cmd.SetOut(&sb)
	cmd.SetErr(io.Discard)
	cmd.SilenceUsage = true
	vsync.TakeGoPanic()
	err := cmd.Execute()
	if p := vsync.TakeGoPanic(); p != "" {
		return 2, sb.String() + "\npanic in goroutine: " + p
	}
	if err != nil {
		return 1, sb.String() + "\nError: " + err.Error()
	}
	return 0, sb.String()
}

// BboltBin is the path of the CLI binary built by ./run from the current tree.
func BboltBin() string {
	if b := os.Getenv("VERIF_BIN"); b != "" {
		return filepath.Join(b, "bbolt")
	}
	return filepath.Join(evid.Root(), "bin", "bbolt")
}

// RunCLIBinary runs the built binary and returns its exit status.
func RunCLIBinary(args ...string) (int, string) {
	c := exec.Command(BboltBin(), args...)
	b, err := c.CombinedOutput()
	if err != nil {
		if ee, ok := err.(*exec.ExitError); ok {
			return ee.ExitCode(), string(b)
		}
		return -1, err.Error()
	}
	return 0, string(b)
}

// txCheckErrors opens path read-only with a preloaded freelist and returns what Tx.Check reports.
// opened=false: the file could not be opened (or opening panicked).
func txCheckErrors(path string, flt string, ps int) (errs []string, opened bool) {
	defer func() {
		if r := recover(); r != nil {
			errs = append(errs, fmt.Sprintf("panic: %v", r))
		}
	}()
	o := apix.Cfg{Freelist: flt, ReadOnly: true, PreLoad: true}.Options()
	vsync.TakeGoPanic()
	db, err := bolt.Open(path, 0600, o)
	if err != nil {
		return []string{"open: " + err.Error()}, false
	}
	defer db.Close()
	if p := vsync.TakeGoPanic(); p != "" {
		return []string{"a goroutine started by Open panicked (process crash): " + p}, false
	}
	opened = true
	_ = db.View(func(tx *bolt.Tx) error {
		for e := range vsync.RecvFrom(tx.Check()).Range() {
			if len(errs) < 50 {
				errs = append(errs, e.Error())
			}
		}
		return nil
	})
	return errs, true
}

type c19Job struct {
	Seed   string `json:"seed"`
	PS     int    `json:"ps"`
	FL     string `json:"fl"`
	NFS    bool   `json:"nfs"`
	Lo     int    `json:"lo"`
	Hi     int    `json:"hi"`
	Binary bool   `json:"binary"` // also run the built CLI binary on every 16th case
}

type c19Res struct {
	Total       int            `json:"total"` // mutations enumerated for this state
	Done        int            `json:"done"`
	ByClass     map[string]int `json:"by_class"`
	Ineffective int            `json:"ineffective"` // the decoder does not see the intended class: not counted
	NotOpenable int            `json:"not_openable"`
	Fails       []string       `json:"fails,omitempty"`
	FailDesc    []string       `json:"fail_desc,omitempty"`
	Err         string         `json:"err,omitempty"`
	CleanOK     bool           `json:"clean_ok"`
}

func c19State(seed string, ps int, flt string, nfs bool) ([]byte, error) {
	sc := &hx.Scope{Seed: Seeds[seed], Cfg: apix.Cfg{PageSize: ps, Freelist: flt, NoFreelistSync: nfs}}
	st, err := hx.BuildSeedData(sc)
	return st, err
}

func c19Work(job c19Job) c19Res {
	res := c19Res{ByClass: map[string]int{}}
	data, err := c19State(job.Seed, job.PS, job.FL, job.NFS)
	if err != nil {
		res.Err = err.Error()
		return res
	}
	im, st, err := apix.DecodeBytes(data, job.PS)
	if err != nil || len(st.Problems) > 0 {
		res.Err = fmt.Sprintf("seed state does not decode cleanly: %v %v", err, st.Problems)
		return res
	}
	_ = im
	path := apix.TempPath(hx.WorkDir())
	defer os.Remove(path)
	if job.Lo == 0 {
		// the unmutated file: both backends silent, CLI exits zero
		_ = os.WriteFile(path, data, 0600)
		for _, b := range []string{"array", "hashmap"} {
			if errs, ok := txCheckErrors(path, b, job.PS); !ok || len(errs) > 0 {
				res.Fails = append(res.Fails, fmt.Sprintf("unmutated file: Tx.Check (%s backend) reports %v", b, errs))
				res.FailDesc = append(res.FailDesc, "unmutated")
			}
		}
		if code, out := RunCLI("check", path); code != 0 {
			res.Fails = append(res.Fails, fmt.Sprintf("unmutated file: `bbolt check` exits %d: %s", code, lastLine(out)))
			res.FailDesc = append(res.FailDesc, "unmutated")
		}
		if job.Binary {
			if code, out := RunCLIBinary("check", path); code != 0 {
				res.Fails = append(res.Fails, fmt.Sprintf("unmutated file: bbolt binary check exits %d: %s", code, lastLine(out)))
				res.FailDesc = append(res.FailDesc, "unmutated")
			}
		}
		res.CleanOK = len(res.Fails) == 0
	}
	// ancestors: a reference to an own ancestor makes a cycle, on which the recursive walks of any checker run
	// away; those cases are skipped (counted as ineffective)
	parent := map[uint64]uint64{}
	for _, p := range st.Pages {
		for _, c := range p.Children {
			parent[c] = p.ID
		}
		for _, c := range p.BucketRoots {
			parent[c] = p.ID
		}
	}
	idx := 0
	boltfmt.Mutations(data, st, func(m boltfmt.Mutation) bool {
		i := idx
		idx++
		if i < job.Lo || i >= job.Hi {
			return true
		}
		_, mst, err := apix.DecodeBytes(m.Img, job.PS)
		if err != nil || !mst.HasClass(m.Class) {
			res.Ineffective++
			return true
		}
		if m.Class == "double-ref" {
			// skip cycles
			var from, to uint64
			if n, _ := fmt.Sscanf(m.Desc[strings.Index(m.Desc, "page ")+5:], "%d", &from); n == 1 {
				if k := strings.LastIndex(m.Desc, "-> "); k >= 0 {
					fmt.Sscanf(m.Desc[k+3:], "%d", &to)
					for a, ok := from, true; ok; a, ok = parent[a] {
						if a == to {
							res.Ineffective++
							return true
						}
					}
				}
			}
		}
		res.Done++
		res.ByClass[m.Class]++
		if err := os.WriteFile(path, m.Img, 0600); err != nil {
			res.Err = err.Error()
			return false
		}
		for _, b := range []string{"array", "hashmap"} {
			errs, opened := txCheckErrors(path, b, job.PS)
			if !opened {
				res.NotOpenable++
				continue
			}
			if len(errs) == 0 && len(res.Fails) < 10 {
				res.Fails = append(res.Fails, fmt.Sprintf("[%s] %s: Tx.Check (%s backend) reports nothing", m.Class, m.Desc, b))
				res.FailDesc = append(res.FailDesc, m.Class+"/"+b+": "+m.Desc)
			}
		}
		if code, _ := RunCLI("check", path); code == 0 && len(res.Fails) < 10 {
			res.Fails = append(res.Fails, fmt.Sprintf("[%s] %s: `bbolt check` exits 0", m.Class, m.Desc))
			res.FailDesc = append(res.FailDesc, m.Class+"/cli: "+m.Desc)
		}
		if job.Binary && i%16 == 0 {
			if code, _ := RunCLIBinary("check", path); code == 0 && len(res.Fails) < 10 {
				res.Fails = append(res.Fails, fmt.Sprintf("[%s] %s: bbolt binary check exits 0", m.Class, m.Desc))
				res.FailDesc = append(res.FailDesc, m.Class+"/bin: "+m.Desc)
			}
		}
		return true
	})
	res.Total = idx
	return res
}

func init() {
	JobFuncs["c19"] = func(b []byte) []byte {
		var j c19Job
		_ = json.Unmarshal(b, &j)
		r := c19Work(j)
		out, _ := json.Marshal(r)
		return out
	}
	WorkerKinds["c19"] = func() {
		defer hx.CleanWorkDir()
		par.Serve(func(b []byte) []byte {
			var j c19Job
			_ = json.Unmarshal(b, &j)
			r := c19Work(j)
			out, _ := json.Marshal(r)
			return out
		})
	}
}

// C19 runs the corruption sweep.
func C19(tier string) int {
	start := time.Now()
	LoadFindings()
	seeds := []string{"inline", "twolevel", "nested", "overflow", "freeruns", "bigkeys"}
	sizes := []int{1024}
	if tier == "thorough" {
		seeds = append(seeds, "leaf", "threelevel")
		sizes = append(sizes, 4096)
	}
	var meta []c19Job
	for _, ps := range sizes {
		for _, sd := range seeds {
			for _, v := range []struct {
				fl  string
				nfs bool
			}{{"array", false}, {"hashmap", false}, {"array", true}} {
				if ps != 1024 && v.fl == "hashmap" {
					continue
				}
				for lo := 0; lo < 4000; lo += 100 {
					meta = append(meta, c19Job{Seed: sd, PS: ps, FL: v.fl, NFS: v.nfs, Lo: lo, Hi: lo + 100, Binary: true})
				}
			}
		}
	}
	var jobs [][]byte
	for _, j := range meta {
		b, _ := json.Marshal(j)
		jobs = append(jobs, b)
	}
	pool := par.NewPool(Workers(), "worker", "c19")
	defer pool.Close()
	done, ineffective, notOpenable, cleanStates := 0, 0, 0, 0
	byClass := map[string]int{}
	var viols, errs []string
	known := map[string]*Finding{}
	capped := ""
	_ = pool.Run(jobs, func(r par.Result) {
		j := meta[r.Idx]
		if r.Died || r.Hung {
			errs = append(errs, fmt.Sprintf("worker died/hung on %+v: %s", j, lastLine(r.Stderr)))
			return
		}
		var res c19Res
		if err := json.Unmarshal(r.Out, &res); err != nil {
			errs = append(errs, err.Error())
			return
		}
		if res.Err != "" {
			errs = append(errs, res.Err)
		}
		if res.Total > 4000 && j.Lo == 0 {
			capped += fmt.Sprintf("%s/%d/%s: %d mutations, only the first 4000 run; ", j.Seed, j.PS, j.FL, res.Total)
		}
		done += res.Done
		ineffective += res.Ineffective
		notOpenable += res.NotOpenable
		if res.CleanOK {
			cleanStates++
		}
		for k, v := range res.ByClass {
			byClass[k] += v
		}
		for i, f := range res.Fails {
			if fd := MatchFinding("C19", nil, "mismatch", f); fd != nil {
				known[fd.ID] = fd
				continue
			}
			if len(viols) < 5 {
				p := evid.Replay("C19", map[string]interface{}{"property": "C19", "engine": "c19", "job": j, "case": res.FailDesc[i], "msg": f})
				viols = append(viols, p)
				evid.Violation("C19", p)
				fmt.Printf("  state %s/%d/%s nfs=%v: %s\n", j.Seed, j.PS, j.FL, j.NFS, f)
			}
		}
	})
	for _, id := range keys(known) {
		fmt.Printf("KNOWN-FINDING: property=C19 %s: %s\n", id, known[id].What)
	}
	cov := map[string]interface{}{
		"evaluations": done, "distinct_nontrivial": done, "states": done + cleanStates, "transitions": done * 3, "traces_validated_against_impl": done,
		"rule":     "for every consistent state (seed states x freelist persisted by the array / hash-map backend or not persisted, page sizes per tier): the unmutated file must be reported clean by Tx.Check under both backends and by `bbolt check` (in-process and the built binary); then every single structural corruption of each class at every eligible place is made by decoder-guided byte surgery on a copy (leak: each free id dropped, each branch element / bucket entry removed; reachable-and-free: each reachable page and each overflow page listed; double reference: each branch element / bucket root redirected to each other referenced page, cycles excluded; freed twice: each id duplicated; invalid type: 7 non-tree flag values on each reachable page; key order: each adjacent pair swapped, each child's first key lowered below its parent key); a mutation counts only if the independent decoder sees the intended class; Tx.Check (read-only, preloaded freelist, both backends) must report at least one error and the CLI must exit non-zero",
		"samples":  []string{"branch page 7: element 1 (child 5) removed", "reachable page 9 (overflow 1 of leaf page 8) added to the freelist", "free id 4 listed twice", "leaf page 5: flags := 0x10"},
		"by_class": byClass, "ineffective_mutations_skipped": ineffective, "not_openable_library_cases": notOpenable, "clean_states_ok": cleanStates,
		"exhaustive": len(errs) == 0 && capped == "", "caps_hit": capped, "harness_errors": errs, "known_findings_seen": keys(known),
	}
	ev := &evid.Evidence{PropertyID: "C19", Tier: tier, Level: "fault_enumeration", Coverage: cov, Violations: len(viols),
		Assumptions: []string{"a corruption after which Open itself fails counts as reported only for the CLI", "references that would create a cycle are excluded (recursive walks do not terminate on them)"}}
	if err := ev.Write(start); err != nil {
		return 2
	}
	for i, e := range errs {
		if i < 5 {
			fmt.Fprintln(os.Stderr, "harness error:", e)
		}
	}
	if len(viols) > 0 {
		return 1
	}
	if len(errs) > 0 {
		return 2
	}
	fmt.Printf("C19 %s: OK mutations=%d by_class=%v ineffective=%d not_openable=%d wall=%.1fs\n", tier, done, byClass, ineffective, notOpenable, time.Since(start).Seconds())
	return 0
}
