package checks

import (
	"encoding/json"
	"fmt"
	"os"
	"sort"
	"strings"
	"time"
	"unsafe"

	"go.etcd.io/bbolt/internal/common"
	fl "go.etcd.io/bbolt/internal/freelist"
	"go.etcd.io/bbolt/zverif/evid"
	"go.etcd.io/bbolt/zverif/par"
	"go.etcd.io/bbolt/zverif/vsync"
)

// ---- C09: the free-page allocator obeys its specification ----

type fop struct {
	K  string `json:"k"` // init beginW alloc free commit rollback rollbackNS addR rmR readOther
	A  int    `json:"a,omitempty"`
	B  int    `json:"b,omitempty"`
	Ch []int  `json:"ch,omitempty"` // map-order choices taken inside this op (hash-map backend)
}

func (o fop) String() string {
	switch o.K {
	case "alloc":
		return fmt.Sprintf("Allocate(%d)%v", o.A, o.Ch)
	case "free":
		return fmt.Sprintf("Free(page %d, overflow %d)", o.A, o.B)
	case "rmR":
		return fmt.Sprintf("RemoveReadonlyTXID(reader %d)", o.A)
	}
	return o.K
}

type extent struct {
	start, n int
	atx      uint64 // transaction that allocated it from the freelist (0: unknown / never through the allocator)
}

type pend struct {
	id  common.Pgid
	atx common.Txid
}

// flWorld is the model plus the real allocator it shadows.
type flWorld struct {
	backend string
	f       fl.Interface
	free    map[int]bool
	pending map[uint64][]pend
	allocs  map[int]uint64
	readers []uint64
	last    uint64 // last committed txid
	writer  uint64 // 0: none
	hwm     int
	inuse   []extent
	// snapshot at writer begin (what a rollback must restore)
	snapFree   map[int]bool
	snapInuse  []extent
	snapHwm    int
	snapAllocs map[int]uint64
	written    []byte // last written freelist page
	maxHwm     int
}

func newFL(backend string) fl.Interface {
	if backend == "hashmap" {
		return fl.NewHashMapFreelist()
	}
	return fl.NewArrayFreelist()
}

func (w *flWorld) fail(f string, a ...interface{}) string { return fmt.Sprintf(f, a...) }

func sortedInts(m map[int]bool) []int {
	var r []int
	for k := range m {
		r = append(r, k)
	}
	sort.Ints(r)
	return r
}

// agree compares the real allocator with the model.
func (w *flWorld) agree(when string) string {
	d := fl.VerifDump(w.f)
	var got []int
	for _, id := range d.Free {
		got = append(got, int(id))
	}
	if fmt.Sprint(got) != fmt.Sprint(sortedInts(w.free)) {
		return fmt.Sprintf("%s: free ids %v, specification says %v", when, got, sortedInts(w.free))
	}
	np := 0
	for tid, l := range w.pending {
		np += len(l)
		gl := d.Pending[common.Txid(tid)]
		var a, b []string
		for _, p := range l {
			a = append(a, fmt.Sprintf("%d@%d", p.id, p.atx))
		}
		for _, p := range gl {
			b = append(b, fmt.Sprintf("%d@%d", p.ID, p.AllocTx))
		}
		sort.Strings(a)
		sort.Strings(b)
		if fmt.Sprint(a) != fmt.Sprint(b) {
			return fmt.Sprintf("%s: pending of tx %d is %v, specification says %v", when, tid, b, a)
		}
	}
	gp := 0
	for tid, l := range d.Pending {
		gp += len(l)
		if _, ok := w.pending[uint64(tid)]; !ok && len(l) > 0 {
			return fmt.Sprintf("%s: unexpected pending pages %v for tx %d", when, l, tid)
		}
	}
	// cache = free ∪ pending
	cache := map[int]bool{}
	for k := range w.free {
		cache[k] = true
	}
	for _, l := range w.pending {
		for _, p := range l {
			cache[int(p.id)] = true
		}
	}
	var gc []int
	for _, id := range d.Cache {
		gc = append(gc, int(id))
	}
	if fmt.Sprint(gc) != fmt.Sprint(sortedInts(cache)) {
		return fmt.Sprintf("%s: membership cache %v, free ∪ pending is %v", when, gc, sortedInts(cache))
	}
	// the counting functions and Freed / Copyall
	if w.f.FreeCount() != len(w.free) || w.f.PendingCount() != np || w.f.Count() != len(w.free)+np {
		return fmt.Sprintf("%s: FreeCount/PendingCount/Count = %d/%d/%d, sets have %d/%d", when, w.f.FreeCount(), w.f.PendingCount(), w.f.Count(), len(w.free), np)
	}
	for id := 0; id < w.maxHwm+2; id++ {
		if w.f.Freed(common.Pgid(id)) != cache[id] {
			return fmt.Sprintf("%s: Freed(%d)=%v, in free ∪ pending: %v", when, id, w.f.Freed(common.Pgid(id)), cache[id])
		}
	}
	all := make([]common.Pgid, w.f.Count())
	w.f.Copyall(all)
	var ga []int
	for _, id := range all {
		ga = append(ga, int(id))
	}
	if fmt.Sprint(ga) != fmt.Sprint(sortedInts(cache)) {
		return fmt.Sprintf("%s: Copyall %v, free ∪ pending is %v", when, ga, sortedInts(cache))
	}
	// allocs
	for pg, tx := range w.allocs {
		if uint64(d.Allocs[common.Pgid(pg)]) != tx {
			return fmt.Sprintf("%s: page %d allocated by tx %d, allocator remembers %d", when, pg, tx, d.Allocs[common.Pgid(pg)])
		}
	}
	// Only the remembered allocator of the head page of an extent in use is ever read (by Free). Entries for pages
	// that are free again or for overflow pages are dead bookkeeping, overwritten by the next Allocate of that page
	// before anything reads them: not part of the observable state, hence not compared.
	for _, e := range w.inuse {
		if uint64(d.Allocs[common.Pgid(e.start)]) != w.allocs[e.start] {
			return fmt.Sprintf("%s: allocator remembers page %d as allocated by tx %d, specification %d", when, e.start, d.Allocs[common.Pgid(e.start)], w.allocs[e.start])
		}
	}
	var rs []uint64
	for _, r := range d.Readers {
		rs = append(rs, uint64(r))
	}
	mr := append([]uint64{}, w.readers...)
	sort.Slice(mr, func(i, j int) bool { return mr[i] < mr[j] })
	if fmt.Sprint(rs) != fmt.Sprint(mr) {
		return fmt.Sprintf("%s: registered readers %v, specification %v", when, rs, mr)
	}
	return ""
}

func copyBool(m map[int]bool) map[int]bool {
	c := map[int]bool{}
	for k, v := range m {
		c[k] = v
	}
	return c
}

func pageBuf(id int, overflow int, size int) (*common.Page, []byte) {
	buf := make([]byte, size)
	p := (*common.Page)(unsafe.Pointer(&buf[0]))
	p.SetId(common.Pgid(id))
	p.SetOverflow(uint32(overflow))
	return p, buf
}

// apply executes op on the world; alloc returns the Points of the session it ran in (for choice enumeration).
func (w *flWorld) apply(o fop) (msg string, points []vsync.Point) {
	defer func() {
		if r := recover(); r != nil {
			msg = fmt.Sprintf("%s panicked: %v", o, r)
		}
	}()
	switch o.K {
	case "beginW":
		before := copyBool(w.free)
		w.f.ReleasePendingPages()
		w.writer = w.last + 1
		// what was released?
		d := fl.VerifDump(w.f)
		now := map[int]bool{}
		for _, id := range d.Free {
			now[int(id)] = true
		}
		for id := range before {
			if !now[id] {
				return fmt.Sprintf("ReleasePendingPages: page %d was free before and is not any more", id), nil
			}
		}
		for id := range now {
			if before[id] {
				continue
			}
			// released: must have been pending, and invisible to every registered reader
			found := false
			for tid, l := range w.pending {
				for i, p := range l {
					if int(p.id) != id {
						continue
					}
					found = true
					for _, r := range w.readers {
						if uint64(p.atx) <= r && r < tid {
							return fmt.Sprintf("ReleasePendingPages released page %d (allocated by tx %d, freed by tx %d) although reader %d can still see it", id, p.atx, tid, r), nil
						}
					}
					w.pending[tid] = append(append([]pend{}, l[:i]...), l[i+1:]...)
					if len(w.pending[tid]) == 0 {
						delete(w.pending, tid)
					}
					break
				}
				if found {
					break
				}
			}
			if !found {
				return fmt.Sprintf("ReleasePendingPages made page %d free which was not pending", id), nil
			}
			w.free[id] = true
		}
		if len(w.readers) == 0 && len(w.pending) > 0 {
			return fmt.Sprintf("ReleasePendingPages with no reader registered left pages pending: %v", w.pending), nil
		}
		w.snapFree, w.snapHwm = copyBool(w.free), w.hwm
		w.snapInuse = append([]extent{}, w.inuse...)
		w.snapAllocs = map[int]uint64{}
		for k, v := range w.allocs {
			w.snapAllocs[k] = v
		}
	case "alloc":
		n := o.A
		var r common.Pgid
		if w.backend == "hashmap" {
			s := vsync.NewSession(o.Ch)
			s.MapOrder = true
			var pmsg string
			s.Run(func() {
				defer func() {
					if x := recover(); x != nil {
						pmsg = fmt.Sprintf("Allocate(%d) panicked: %v", n, x)
					}
				}()
				r = w.f.Allocate(common.Txid(w.writer), n)
			})
			points = s.Points
			if pmsg != "" {
				return pmsg, points
			}
			if s.Verdict != "" {
				return "Allocate: session verdict " + s.Verdict + " " + s.Detail, points
			}
		} else {
			r = w.f.Allocate(common.Txid(w.writer), n)
		}
		if r == 0 {
			// allowed only when no run of n consecutive free pages exists
			ids := sortedInts(w.free)
			run := 0
			for i, id := range ids {
				if i > 0 && ids[i-1]+1 == id {
					run++
				} else {
					run = 1
				}
				if run >= n {
					return fmt.Sprintf("Allocate(%d) reported none although pages %d..%d are free", n, id-n+1, id), points
				}
			}
			// the database takes the pages from the end of the file
			w.inuse = append(w.inuse, extent{w.hwm, n, 0})
			w.hwm += n
		} else {
			if r < 2 {
				return fmt.Sprintf("Allocate(%d) handed out page %d", n, r), points
			}
			for k := 0; k < n; k++ {
				if !w.free[int(r)+k] {
					return fmt.Sprintf("Allocate(%d) returned %d but page %d was not free", n, r, int(r)+k), points
				}
				delete(w.free, int(r)+k)
			}
			w.allocs[int(r)] = w.writer
			w.inuse = append(w.inuse, extent{int(r), n, w.writer})
		}
	case "free":
		idx := -1
		for i, e := range w.inuse {
			if e.start == o.A {
				idx = i
			}
		}
		e := w.inuse[idx]
		p, _ := pageBuf(e.start, e.n-1, 64)
		w.f.Free(common.Txid(w.writer), p)
		atx := w.allocs[e.start]
		delete(w.allocs, e.start)
		for k := 0; k < e.n; k++ {
			w.pending[w.writer] = append(w.pending[w.writer], pend{common.Pgid(e.start + k), common.Txid(atx)})
		}
		w.inuse = append(append([]extent{}, w.inuse[:idx]...), w.inuse[idx+1:]...)
	case "commit":
		sz := w.f.EstimatedWritePageSize()
		need := 16 + 8*w.f.Count()
		if sz < need {
			return fmt.Sprintf("EstimatedWritePageSize %d underestimates the %d bytes needed", sz, need), nil
		}
		p, buf := pageBuf(99, 0, sz+8)
		w.f.Write(p)
		w.written = buf
		w.last = w.writer
		w.writer = 0
		if msg := w.checkWritten(p); msg != "" {
			return msg, nil
		}
	case "rollback", "rollbackNS":
		w.f.Rollback(common.Txid(w.writer))
		if o.K == "rollback" && w.written != nil {
			w.f.Reload((*common.Page)(unsafe.Pointer(&w.written[0])))
		} else {
			// rescan: every page below the committed high-water mark that is not in use in the committed state
			used := map[int]bool{}
			for _, e := range w.snapInuse {
				for k := 0; k < e.n; k++ {
					used[e.start+k] = true
				}
			}
			var scan common.Pgids
			for id := 2; id < w.snapHwm; id++ {
				if !used[id] {
					scan = append(scan, common.Pgid(id))
				}
			}
			w.f.NoSyncReload(scan)
		}
		// specification: exactly the state at writer begin
		delete(w.pending, w.writer)
		w.free, w.hwm = copyBool(w.snapFree), w.snapHwm
		w.inuse = append([]extent{}, w.snapInuse...)
		w.allocs = map[int]uint64{}
		for k, v := range w.snapAllocs {
			w.allocs[k] = v
		}
		w.writer = 0
	case "addR":
		w.f.AddReadonlyTXID(common.Txid(w.last))
		w.readers = append(w.readers, w.last)
	case "rmR":
		r := w.readers[o.A]
		w.f.RemoveReadonlyTXID(common.Txid(r))
		w.readers = append(append([]uint64{}, w.readers[:o.A]...), w.readers[o.A+1:]...)
	case "readOther":
		sz := w.f.EstimatedWritePageSize()
		p, _ := pageBuf(99, 0, sz+8)
		w.f.Write(p)
		if msg := w.checkWritten(p); msg != "" {
			return msg, nil
		}
	}
	return w.agree("after " + o.String()), points
}

// checkWritten: the serialised list holds exactly free ∪ pending, ascending, and reads back identically into
// both backends.
func (w *flWorld) checkWritten(p *common.Page) string {
	want := map[int]bool{}
	for k := range w.free {
		want[k] = true
	}
	for _, l := range w.pending {
		for _, x := range l {
			want[int(x.id)] = true
		}
	}
	if !p.IsFreelistPage() {
		return "Write did not mark the page as a freelist page"
	}
	var got []int
	for _, id := range p.FreelistPageIds() {
		got = append(got, int(id))
	}
	if fmt.Sprint(got) != fmt.Sprint(sortedInts(want)) {
		return fmt.Sprintf("Write stored %v, free ∪ pending is %v", got, sortedInts(want))
	}
	for _, b := range []string{"array", "hashmap"} {
		g := newFL(b)
		g.Read(p)
		d := fl.VerifDump(g)
		var gf []int
		for _, id := range d.Free {
			gf = append(gf, int(id))
		}
		if fmt.Sprint(gf) != fmt.Sprint(sortedInts(want)) || len(d.Pending) != 0 || g.FreeCount() != len(want) {
			return fmt.Sprintf("reading the written list into the %s backend gives free %v pending %v, written was %v", b, gf, d.Pending, sortedInts(want))
		}
	}
	return ""
}

func (w *flWorld) key() string {
	d := fl.VerifDump(w.f)
	var sb strings.Builder
	fmt.Fprintf(&sb, "F%v|", sortedInts(w.free))
	var tids []int
	for t := range w.pending {
		tids = append(tids, int(t))
	}
	sort.Ints(tids)
	for _, t := range tids {
		l := append([]pend{}, w.pending[uint64(t)]...)
		sort.Slice(l, func(i, j int) bool { return l[i].id < l[j].id })
		fmt.Fprintf(&sb, "P%d%v/%d|", t, l, d.LastReleaseBegin[common.Txid(t)])
	}
	var as []string
	for p, t := range w.allocs {
		as = append(as, fmt.Sprintf("%d:%d", p, t))
	}
	sort.Strings(as)
	in := append([]extent{}, w.inuse...)
	sort.Slice(in, func(i, j int) bool { return in[i].start < in[j].start })
	fmt.Fprintf(&sb, "A%v|R%v|L%d|W%d|H%d|I%v|wr%v|raw%s", as, w.readers, w.last, w.writer, w.hwm, in, w.written != nil, d.Raw)
	if w.written != nil {
		p := (*common.Page)(unsafe.Pointer(&w.written[0]))
		fmt.Fprintf(&sb, "%v", p.FreelistPageIds())
	}
	return sb.String()
}

func newWorld(backend string, init []int, hwm, maxHwm int) (*flWorld, string) {
	w := &flWorld{backend: backend, f: newFL(backend), free: map[int]bool{}, pending: map[uint64][]pend{}, allocs: map[int]uint64{}, last: 5, hwm: hwm, maxHwm: maxHwm}
	var ids common.Pgids
	for _, id := range init {
		ids = append(ids, common.Pgid(id))
		w.free[id] = true
	}
	w.f.Init(ids)
	for id := 2; id < hwm; id++ {
		if !w.free[id] {
			w.inuse = append(w.inuse, extent{id, 1, 0})
		}
	}
	// pages 2..3 as one two-page extent when both are in use (a page with overflow)
	if len(w.inuse) >= 2 && w.inuse[0].start == 2 && w.inuse[1].start == 3 {
		w.inuse = append([]extent{{2, 2, 0}}, w.inuse[2:]...)
	}
	return w, w.agree("after Init")
}

func (w *flWorld) enabled(maxReaders int) []fop {
	var ops []fop
	if w.writer == 0 {
		ops = append(ops, fop{K: "beginW"})
		if len(w.readers) < maxReaders {
			ops = append(ops, fop{K: "addR"})
		}
	} else {
		for n := 1; n <= 3; n++ {
			if w.hwm+n <= w.maxHwm {
				ops = append(ops, fop{K: "alloc", A: n})
			}
		}
		for _, e := range w.inuse {
			if e.atx != w.writer { // caller contract: a transaction never frees a page it allocated itself
				ops = append(ops, fop{K: "free", A: e.start, B: e.n - 1})
			}
		}
		ops = append(ops, fop{K: "commit"}, fop{K: "rollback"}, fop{K: "rollbackNS"})
	}
	for i := range w.readers {
		ops = append(ops, fop{K: "rmR", A: i})
	}
	ops = append(ops, fop{K: "readOther"})
	return ops
}

type c09Job struct {
	Backend  string `json:"backend"`
	Init     []int  `json:"init"`
	Hwm      int    `json:"hwm"`
	MaxHwm   int    `json:"max_hwm"`
	Depth    int    `json:"depth"`
	Readers  int    `json:"readers"`
	Prefix   []fop  `json:"prefix,omitempty"`   // non-initial start state: operations applied (and checked) before the search
	Path     []fop  `json:"path,omitempty"`     // replay
	Big      bool   `json:"big,omitempty"`      // the 0xFFFF directed enumeration instead
	Deadline int64  `json:"deadline,omitempty"` // unix seconds; the search stops there and reports the depth completed
}

type c09Res struct {
	States      int    `json:"states"`
	Transitions int    `json:"transitions"`
	MaxDepth    int    `json:"max_depth"`
	AllocOrders int    `json:"alloc_orders"` // extra executions enumerating map iteration orders
	Capped      bool   `json:"capped,omitempty"`
	DepthDone   int    `json:"depth_done"`
	Fail        string `json:"fail,omitempty"`
	FailPath    []fop  `json:"fail_path,omitempty"`
	Sample      string `json:"sample,omitempty"`
}

func c09Replay(job c09Job, path []fop) (*flWorld, string) {
	w, msg := newWorld(job.Backend, job.Init, job.Hwm, job.MaxHwm)
	if msg != "" {
		return w, msg
	}
	for _, o := range job.Prefix {
		if o.K == "free" {
			ok := false
			for _, e := range w.inuse {
				ok = ok || e.start == o.A
			}
			if !ok {
				return w, "" // prefix not applicable to this start set
			}
		}
		if m, _ := w.apply(o); m != "" {
			return w, "start prefix: " + m
		}
	}
	for _, o := range path {
		if m, _ := w.apply(o); m != "" {
			return w, m
		}
	}
	return w, ""
}

func prefixNote(p []fop) string {
	if len(p) == 0 {
		return ""
	}
	return "[start state: " + pathString(p) + "] "
}

func btoi(b bool) int {
	if b {
		return 1
	}
	return 0
}

func pathString(p []fop) string {
	var s []string
	for _, o := range p {
		s = append(s, o.String())
	}
	return strings.Join(s, "; ")
}

func c09Work(job c09Job) c09Res {
	var res c09Res
	if job.Big {
		return c09Big(job)
	}
	if job.Path != nil {
		_, msg := c09Replay(job, job.Path)
		res.Fail = msg
		return res
	}
	seen := map[string]bool{}
	frontier := [][]fop{nil}
	w0, msg := c09Replay(job, nil)
	if msg != "" {
		res.Fail = msg
		return res
	}
	seen[w0.key()] = true
	res.States = 1
	for depth := 0; depth < job.Depth && len(frontier) > 0; depth++ {
		var next [][]fop
		for _, path := range frontier {
			if job.Deadline > 0 && time.Now().Unix() > job.Deadline {
				res.Capped = true
				return res
			}
			w, msg := c09Replay(job, path)
			if msg != "" {
				res.Fail, res.FailPath = "replay diverged: "+msg, path
				return res
			}
			for _, o := range w.enabled(job.Readers) {
				// all map-order alternatives of this op (only Allocate on the hash-map backend has any)
				pending := [][]int{nil}
				for len(pending) > 0 {
					ch := pending[0]
					pending = pending[1:]
					w2, _ := c09Replay(job, path)
					o2 := o
					o2.Ch = ch
					msg, points := w2.apply(o2)
					res.Transitions++
					full := make([]int, len(points))
					for i, p := range points {
						full[i] = p.Chosen
					}
					o2.Ch = full
					np := append(append([]fop{}, path...), o2)
					if msg != "" {
						res.Fail, res.FailPath = msg, np
						return res
					}
					for i := len(ch); i < len(points); i++ {
						for alt := 1; alt < points[i].N; alt++ {
							res.AllocOrders++
							pending = append(pending, append(append([]int{}, full[:i]...), alt))
						}
					}
					k := w2.key()
					if !seen[k] {
						seen[k] = true
						res.States++
						next = append(next, np)
						if len(np) > res.MaxDepth {
							res.MaxDepth = len(np)
						}
						if res.Sample == "" && len(np) >= 5 {
							res.Sample = pathString(np)
						}
					}
				}
			}
		}
		frontier = next
		res.DepthDone = depth + 1
	}
	return res
}

// c09Big: the 0xFFFF count convention, list lengths around 65535, both backends, write / read / size estimate.
func c09Big(job c09Job) c09Res {
	var res c09Res
	for _, n := range []int{0, 1, 2, 65533, 65534, 65535, 65536, 65537} {
		for _, split := range []int{0, 1} { // all free, or the last id pending
			if n == 0 && split == 1 {
				continue
			}
			res.Transitions++
			f := newFL(job.Backend)
			ids := make(common.Pgids, 0, n)
			for i := 0; i < n-split; i++ {
				ids = append(ids, common.Pgid(2+2*i)) // non-contiguous: one span per id
			}
			f.Init(ids)
			if split == 1 {
				p, _ := pageBuf(2+2*(n-1), 0, 64)
				f.Free(9, p)
			}
			if f.Count() != n {
				res.Fail = fmt.Sprintf("%d ids: Count() = %d", n, f.Count())
				return res
			}
			sz := f.EstimatedWritePageSize()
			need := 16 + 8*n
			if n >= 0xFFFF {
				need += 8
			}
			if sz < need {
				res.Fail = fmt.Sprintf("%d ids: EstimatedWritePageSize %d < %d bytes needed", n, sz, need)
				return res
			}
			p, buf := pageBuf(7, 0, sz+64)
			for i := sz; i < len(buf); i++ {
				buf[i] = 0xAB
			}
			f.Write(p)
			for i := sz; i < len(buf); i++ {
				if buf[i] != 0xAB {
					res.Fail = fmt.Sprintf("%d ids: Write stored beyond the estimated size (%d)", n, sz)
					return res
				}
			}
			// the published convention, decoded by hand
			cnt := int(p.Count())
			data := buf[16:]
			rd := func(i int) uint64 {
				return uint64(data[i*8]) | uint64(data[i*8+1])<<8 | uint64(data[i*8+2])<<16 | uint64(data[i*8+3])<<24 | uint64(data[i*8+4])<<32 | uint64(data[i*8+5])<<40 | uint64(data[i*8+6])<<48 | uint64(data[i*8+7])<<56
			}
			off := 0
			if n >= 0xFFFF {
				if cnt != 0xFFFF || int(rd(0)) != n {
					res.Fail = fmt.Sprintf("%d ids: header count %#x, first word %d (want 0xFFFF and the real count)", n, cnt, rd(0))
					return res
				}
				off = 1
			} else if cnt != n {
				res.Fail = fmt.Sprintf("%d ids: header count %d", n, cnt)
				return res
			}
			for i := 0; i < n; i++ {
				if rd(off+i) != uint64(2+2*i) {
					res.Fail = fmt.Sprintf("%d ids: id %d stored as %d, want %d", n, i, rd(off+i), 2+2*i)
					return res
				}
			}
			for _, b := range []string{"array", "hashmap"} {
				g := newFL(b)
				g.Read(p)
				if g.FreeCount() != n || g.PendingCount() != 0 {
					res.Fail = fmt.Sprintf("%d ids written by %s, read by %s: FreeCount %d", n, job.Backend, b, g.FreeCount())
					return res
				}
				if n > 0 && (!g.Freed(common.Pgid(2+2*(n-1))) || g.Freed(common.Pgid(3))) {
					res.Fail = fmt.Sprintf("%d ids written by %s, read by %s: membership wrong", n, job.Backend, b)
					return res
				}
			}
			res.States++
		}
	}
	return res
}

func init() {
	f := func(b []byte) []byte {
		var j c09Job
		_ = json.Unmarshal(b, &j)
		r := c09Work(j)
		out, _ := json.Marshal(r)
		return out
	}
	JobFuncs["c09"] = f
	WorkerKinds["c09"] = func() { par.Serve(f) }
}

// C09 runs the allocator exploration.
func C09(tier string) int {
	start := time.Now()
	LoadFindings()
	depth := 7
	inits := [][]int{{}, {3, 4, 5}, {2, 3, 5, 6, 9}, {4, 5, 6, 7}, {3, 5, 7}}
	hwm, maxHwm := 10, 12
	if tier == "thorough" {
		depth = 10
		inits = append(inits, []int{2, 3, 4, 5, 6, 7, 8, 9}, []int{8, 9}, []int{2, 4, 5, 8, 9})
	}
	// start states other than the initial one (each reached through checked operations): two readers of different
	// ages with pages allocated after each of them; pending pages of two transactions pinned by two readers
	prefixes := [][]fop{nil,
		{{K: "addR"}, {K: "beginW"}, {K: "alloc", A: 1}, {K: "commit"}, {K: "addR"}, {K: "beginW"}, {K: "alloc", A: 1}, {K: "commit"}},
		{{K: "addR"}, {K: "beginW"}, {K: "free", A: 6}, {K: "commit"}, {K: "addR"}, {K: "beginW"}, {K: "free", A: 7}, {K: "alloc", A: 1}, {K: "commit"}},
		// one transaction that allocated several single pages (consecutive ids, same allocating tx), a reader older than it
		{{K: "addR"}, {K: "beginW"}, {K: "alloc", A: 1}, {K: "alloc", A: 1}, {K: "alloc", A: 2}, {K: "commit"}},
	}
	dl := start.Add(80 * time.Second)
	if tier == "thorough" {
		dl = start.Add(10 * time.Minute)
	}
	var meta []c09Job
	for _, b := range []string{"array", "hashmap"} {
		for _, in := range inits {
			for pi, pf := range prefixes {
				d := depth
				if pi > 0 {
					d = depth - 2 // from the non-initial states (which are already 8-9 operations deep)
					if tier != "thorough" && len(in) != 3 {
						continue // quick: two start sets for the non-initial states
					}
				}
				meta = append(meta, c09Job{Backend: b, Init: in, Hwm: hwm, MaxHwm: maxHwm + 2*btoi(pi > 0), Depth: d, Readers: 3, Prefix: pf, Deadline: dl.Unix()})
			}
		}
		meta = append(meta, c09Job{Backend: b, Big: true})
	}
	var jobs [][]byte
	for _, j := range meta {
		b, _ := json.Marshal(j)
		jobs = append(jobs, b)
	}
	pool := par.NewPool(WorkersCPU(), "worker", "c09")
	pool.Timeout = 40 * time.Minute
	defer pool.Close()
	states, trans, orders, maxDepth := 0, 0, 0, 0
	capped := ""
	var viols, errs, samples []string
	_ = pool.Run(jobs, func(r par.Result) {
		j := meta[r.Idx]
		if r.Died || r.Hung {
			errs = append(errs, fmt.Sprintf("worker died/hung on %+v: %s", j, lastLine(r.Stderr)))
			return
		}
		var res c09Res
		if err := json.Unmarshal(r.Out, &res); err != nil {
			errs = append(errs, err.Error())
			return
		}
		states += res.States
		trans += res.Transitions
		orders += res.AllocOrders
		if res.Capped {
			capped += fmt.Sprintf("%s %v prefix %d ops: deadline reached after depth %d; ", j.Backend, j.Init, len(j.Prefix), res.DepthDone)
		}
		if res.MaxDepth > maxDepth {
			maxDepth = res.MaxDepth
		}
		if res.Sample != "" && len(samples) < 6 {
			samples = append(samples, fmt.Sprintf("[%s, initially free %v] %s", j.Backend, j.Init, res.Sample))
		}
		if res.Fail != "" && len(viols) < 5 {
			j.Path = res.FailPath
			p := evid.Replay("C09", map[string]interface{}{"property": "C09", "engine": "c09", "job": j, "path_text": pathString(res.FailPath), "msg": res.Fail})
			viols = append(viols, p)
			evid.Violation("C09", p)
			fmt.Printf("  %s backend, initially free %v: %s\n  operations: %s%s\n", j.Backend, j.Init, res.Fail, prefixNote(j.Prefix), pathString(res.FailPath))
		}
	})
	if len(samples) == 0 {
		samples = []string{"(none)"}
	}
	cov := map[string]interface{}{
		"states": states, "transitions": trans, "traces_validated_against_impl": trans, "evaluations": trans, "distinct_nontrivial": states,
		"rule":    fmt.Sprintf("breadth-first search over every sequence of at most %d allocator operations as the database can issue them (Init with each start set over page ids 2..%d, writer begin = ReleasePendingPages, Allocate(1..3), Free of every in-use extent incl. a two-page one, commit = Write, Rollback followed by Reload from the last written page or by NoSyncReload from a rescan, AddReadonlyTXID / RemoveReadonlyTXID with up to 3 readers, Write + Read into both backends), both backends; on the hash-map backend every map iteration order inside Allocate is a choice and all are enumerated; every operation is executed on the real allocator and judged by the specification relation (not lowest-id-first); plus the directed enumeration of list lengths 0,1,2,65533..65537 for the 0xFFFF convention; the search starts from the initial state and from three non-initial states reached by fixed, checked prefixes (readers of different ages with later allocations / pinned pending pages / one transaction that allocated several consecutive single pages); a state is a distinct (model, allocator dump incl. internal order) key", depth, maxHwm-1),
		"samples": samples, "exhaustive": len(errs) == 0 && capped == "", "caps_hit": capped, "harness_errors": errs, "max_depth": maxDepth, "map_order_alternatives_run": orders,
	}
	ev := &evid.Evidence{PropertyID: "C09", Tier: tier, Level: "model_checking", Coverage: cov, Violations: len(viols),
		Assumptions: []string{"caller contract as guard of the alphabet: only in-use pages >= 2 are freed, never one the same transaction allocated; writer id = last committed + 1; readers register at the last committed id",
			"the 'randomly beyond the bound' half of the property's quantifier is not addressed (different technique)"}}
	if err := ev.Write(start); err != nil {
		return 2
	}
	for i, e := range errs {
		if i < 5 {
			fmt.Fprintln(os.Stderr, "harness error:", e)
		}
	}
	if len(viols) > 0 {
		return 1
	}
	if len(errs) > 0 {
		return 2
	}
	fmt.Printf("C09 %s: OK states=%d transitions=%d depth=%d map-order alternatives=%d wall=%.1fs\n", tier, states, trans, maxDepth, orders, time.Since(start).Seconds())
	return 0
}
