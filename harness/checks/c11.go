package checks

import (
	"encoding/json"
	"fmt"
	"os"
	"time"

	bolt "go.etcd.io/bbolt"
	"go.etcd.io/bbolt/zverif/apix"
	"go.etcd.io/bbolt/zverif/boltfmt"
	"go.etcd.io/bbolt/zverif/evid"
	"go.etcd.io/bbolt/zverif/hx"
	"go.etcd.io/bbolt/zverif/par"
	"go.etcd.io/bbolt/zverif/refmodel"
	"go.etcd.io/bbolt/zverif/vsync"
)

// ---- C11: open survives one damaged meta page and rejects non-databases ----

// c11State is a file at rest after a successful commit, with the models of its last two versions.
type c11State struct {
	data   []byte
	models map[uint64]*refmodel.Node
	ps     int
	fl     string
}

var c11Progs = [][]apix.Op{
	// 0: small, inline
	{beginW, op("mkb", nil, "p", ""), op("put", P("p"), "a", "s"), commit, beginW, op("put", P("p"), "b", "s"), commit},
	// 1: two-level tree, pages recycled by the last commit
	{beginW, op("mkb", nil, "p", ""), {K: "fill", P: P("p"), Key: "k", V: "M", N: 9}, commit, beginW, op("put", P("p"), "a", "X"), commit,
		beginW, op("del", P("p"), "a", ""), {K: "fill", P: P("p"), Key: "k", V: "M", N: 4}, commit},
	// 2: nested buckets, last commit deletes a bucket
	{beginW, op("mkb", nil, "p", ""), op("mkb", P("p"), "q", ""), {K: "fill", P: P("p", "q"), Key: "k", V: "M", N: 5}, op("mkb", nil, "q", ""), commit,
		beginW, op("delb", P("p"), "q", ""), op("put", P("q"), "a", "s"), commit},
	// 3: a brand-new database (metas with txid 0 and 1, as written by init)
	{},
	// 4: exactly one commit after creation (txids 1 and 2)
	{beginW, op("mkb", nil, "p", ""), op("put", P("p"), "a", "M"), commit},
}

var c11Cache = map[string]*c11State{}

func c11Build(ps int, flt string, prog int) (*c11State, error) {
	k := fmt.Sprintf("%d/%s/%d", ps, flt, prog)
	if s, ok := c11Cache[k]; ok {
		return s, nil
	}
	path := apix.TempPath(hx.WorkDir())
	defer os.Remove(path)
	x, f := apix.NewExec(path, apix.Cfg{PageSize: ps, Freelist: flt}, nil)
	if f != nil {
		return nil, fmt.Errorf("%v", f)
	}
	st := &c11State{models: map[uint64]*refmodel.Node{}, ps: ps, fl: flt}
	// a new file holds two metas (txid 0 and 1) that both describe the empty database
	st.models[0], st.models[1] = refmodel.New(), refmodel.New()
	for _, o := range c11Progs[prog] {
		if f := x.Do(o); f != nil {
			return nil, fmt.Errorf("%v", f)
		}
		if o.K == "commit" {
			st.models[x.CommittedID] = x.Committed
		}
	}
	if _, f := x.CheckFile("c11 state"); f != nil {
		return nil, fmt.Errorf("%v", f)
	}
	x.Close()
	st.data, _ = os.ReadFile(path)
	c11Cache[k] = st
	return st, nil
}

type c11Job struct {
	PS    int    `json:"ps"`
	FL    string `json:"fl"`
	Prog  int    `json:"prog"`
	Kind  string `json:"kind"` // byte | torn | both | short | nondb
	Slot  int    `json:"slot"`
	PosLo int    `json:"lo"`
	PosHi int    `json:"hi"`
	// replay of a single case
	Replay bool   `json:"replay"`
	Case   string `json:"case"`
}

type c11Res struct {
	Cases    int    `json:"cases"`
	Opens    int    `json:"opens"`
	Fallback int    `json:"fallback"` // cases in which the older meta had to be used
	Rejected int    `json:"rejected"`
	Fail     string `json:"fail,omitempty"`
	FailCase string `json:"fail_case,omitempty"`
	Err      string `json:"err,omitempty"`
}

const metaOff = 16 // the meta structure starts after the page header

// c11Open opens the (damaged) file and checks the oracle. expectID 0 = an error is expected.
func c11Open(path string, st *c11State, img []byte, psOpt int, readOnly bool, followUp bool, res *c11Res) string {
	// the independent decoder decides what must happen
	var valid []boltfmt.Meta
	m0 := boltfmt.ParseMeta(img, 0)
	if m0.Valid {
		valid = append(valid, m0)
	}
	if len(img) >= st.ps+80 {
		if m1 := boltfmt.ParseMeta(img[st.ps:], 1); m1.Valid {
			valid = append(valid, m1)
		}
	}
	var want *boltfmt.Meta
	if len(img) < 2*st.ps {
		valid = nil // too small to hold two pages: must be rejected whatever the bytes say
	}
	for i := range valid {
		if want == nil || valid[i].Txid > want.Txid {
			want = &valid[i]
		}
	}
	res.Opens++
	var db *bolt.DB
	var err error
	var pan interface{}
	func() {
		defer func() { pan = recover() }()
		o := apix.Cfg{Freelist: st.fl, ReadOnly: readOnly, PreLoad: true}.Options()
		o.PageSize = psOpt
		db, err = bolt.Open(path, 0600, o)
	}()
	mode := fmt.Sprintf("Open(PageSize option %d, readOnly=%v)", psOpt, readOnly)
	if pan != nil {
		return fmt.Sprintf("%s panicked: %v", mode, pan)
	}
	if want == nil {
		if err == nil {
			db.Close()
			return fmt.Sprintf("%s succeeded although no meta page is valid", mode)
		}
		if !readOnly {
			res.Rejected++
		}
		return ""
	}
	if err != nil {
		return fmt.Sprintf("%s failed with %q although meta %d (txid %d) is valid", mode, err.Error(), want.Slot, want.Txid)
	}
	defer db.Close()
	model := st.models[want.Txid]
	if model == nil {
		return fmt.Sprintf("harness: no model for txid %d", want.Txid)
	}
	msg := ""
	func() {
		defer func() {
			if r := recover(); r != nil {
				msg = fmt.Sprintf("%s: panic while reading: %v", mode, r)
			}
		}()
		tx, err := db.Begin(false)
		if err != nil {
			msg = mode + ": Begin: " + err.Error()
			return
		}
		defer func() { _ = tx.Rollback() }()
		if uint64(tx.ID()) != want.Txid {
			msg = fmt.Sprintf("%s presents txid %d, the surviving meta has %d", mode, tx.ID(), want.Txid)
			return
		}
		got, err := apix.DumpTx(tx, apix.DumpOpts{Backward: true, Gets: true})
		if err != nil {
			msg = mode + ": " + err.Error()
			return
		}
		if d := refmodel.Diff(got, model, ""); d != "" {
			msg = fmt.Sprintf("%s: content(left) differs from the committed state of txid %d (right): %s", mode, want.Txid, d)
			return
		}
		n := 0
		for e := range vsync.RecvFrom(tx.Check()).Range() {
			if n == 0 {
				msg = fmt.Sprintf("%s: Tx.Check: %v", mode, e)
			}
			n++
		}
	}()
	if msg != "" || !followUp || readOnly {
		return msg
	}
	err = db.Update(func(tx *bolt.Tx) error {
		b, err := tx.CreateBucketIfNotExists([]byte("zz"))
		if err != nil {
			return err
		}
		return b.Put([]byte("k"), []byte("v"))
	})
	if err != nil {
		return mode + ": follow-up commit failed: " + err.Error()
	}
	m2 := model.Clone()
	nb, _ := m2.CreateBucketIfNotExists("zz")
	_ = nb.Put("k", []byte("v"))
	err = db.View(func(tx *bolt.Tx) error {
		got, err := apix.DumpTx(tx, apix.DumpOpts{})
		if err != nil {
			return err
		}
		if d := refmodel.Diff(got, m2, ""); d != "" {
			return fmt.Errorf("after follow-up commit: %s", d)
		}
		return nil
	})
	if err != nil {
		return mode + ": " + err.Error()
	}
	return ""
}

func psVariants(ps int) []int {
	other := 8192
	if ps == 8192 {
		other = 2048
	}
	return []int{0, ps, other}
}

func c11Work(job c11Job) c11Res {
	var res c11Res
	st, err := c11Build(job.PS, job.FL, job.Prog)
	if err != nil {
		res.Err = err.Error()
		return res
	}
	path := apix.TempPath(hx.WorkDir())
	defer os.Remove(path)
	try := func(img []byte, name string, v int, follow bool) bool {
		if job.Replay && name != job.Case {
			return true
		}
		res.Cases++
		vars := psVariants(st.ps)
		if err := os.WriteFile(path, img, 0600); err != nil {
			res.Err = err.Error()
			return false
		}
		if msg := c11Open(path, st, img, vars[v%3], false, follow, &res); msg != "" {
			res.Fail, res.FailCase = name+": "+msg, name
			return false
		}
		if follow {
			if err := os.WriteFile(path, img, 0600); err != nil {
				res.Err = err.Error()
				return false
			}
		}
		if msg := c11Open(path, st, img, vars[(v+1)%3], true, false, &res); msg != "" {
			res.Fail, res.FailCase = name+": "+msg, name
			return false
		}
		return true
	}
	base := st.data
	im, _ := boltfmt.Load(base, st.ps)
	newer := im.Winner().Slot
	switch job.Kind {
	case "byte":
		for pos := job.PosLo; pos < job.PosHi; pos++ {
			off := job.Slot*st.ps + metaOff + pos
			for d := 1; d < 256; d++ {
				img := append([]byte{}, base...)
				img[off] = base[off] + byte(d)
				if job.Slot == newer {
					res.Fallback++
				}
				if !try(img, fmt.Sprintf("meta %d byte %d += %d", job.Slot, pos, d), pos+d, d%64 == 1) {
					return res
				}
			}
		}
	case "torn":
		// a would-be next meta (the newest meta with txid+1) partially laid over its slot
		w := *im.Winner()
		next := w
		next.Txid = w.Txid + 1
		next.PageID = next.Txid % 2
		buf := make([]byte, 80)
		boltfmt.EncodeMeta(buf, next)
		slot := int(next.Txid % 2)
		st.models[next.Txid] = st.models[w.Txid] // a complete overlay is a valid meta describing the same tree
		for a := 0; a < 80; a++ {
			for b := a + 1; b <= 80; b++ {
				img := append([]byte{}, base...)
				copy(img[slot*st.ps+a:], buf[a:b])
				if !try(img, fmt.Sprintf("would-be meta %d bytes [%d,%d) over slot %d", next.Txid, a, b, slot), a+b, (a*80+b)%97 == 0) {
					return res
				}
			}
		}
	case "both":
		reps := []struct {
			pos int
			d   byte
		}{{0, 1}, {3, 0x80}, {4, 1}, {8, 1}, {16, 1}, {40, 7}, {48, 1}, {56, 1}}
		for pos := job.PosLo; pos < job.PosHi; pos++ {
			for d := 1; d < 256; d += 5 {
				for ri, r := range reps {
					img := append([]byte{}, base...)
					img[job.Slot*st.ps+metaOff+pos] += byte(d)
					img[(1-job.Slot)*st.ps+metaOff+r.pos] += r.d
					if !try(img, fmt.Sprintf("meta %d byte %d += %d and meta %d byte %d += %d", job.Slot, pos, d, 1-job.Slot, r.pos, r.d), pos+d+ri, false) {
						return res
					}
				}
			}
		}
	case "short":
		for n := job.PosLo; n < job.PosHi; n++ {
			if n == 0 {
				continue // an empty file is a new database by definition
			}
			if !try(append([]byte{}, base[:n]...), fmt.Sprintf("file truncated to %d bytes", n), n, false) {
				return res
			}
		}
	case "nondb":
		zero := make([]byte, len(base))
		if !try(zero, "all-zero file", 0, false) {
			return res
		}
		for _, c := range []struct {
			name string
			f    func(m *boltfmt.Meta)
		}{{"wrong magic with valid checksum", func(m *boltfmt.Meta) { m.Magic ^= 0x10 }}, {"wrong version with valid checksum", func(m *boltfmt.Meta) { m.Version = 3 }},
			{"version 1 with valid checksum", func(m *boltfmt.Meta) { m.Version = 1 }}} {
			img := append([]byte{}, base...)
			for s := 0; s < 2; s++ {
				m := im.Metas[s]
				c.f(&m)
				boltfmt.EncodeMeta(img[s*st.ps:], m)
			}
			if !try(img, c.name, 1, false) {
				return res
			}
		}
		// random-looking but deterministic garbage in both meta pages
		img := append([]byte{}, base...)
		for i := 0; i < 2*st.ps; i++ {
			img[i] = byte(i*131 + 7)
		}
		if !try(img, "garbage in both meta pages", 2, false) {
			return res
		}
	}
	return res
}

func init() {
	JobFuncs["c11"] = func(b []byte) []byte {
		var j c11Job
		_ = json.Unmarshal(b, &j)
		r := c11Work(j)
		out, _ := json.Marshal(r)
		return out
	}
	WorkerKinds["c11"] = func() {
		defer hx.CleanWorkDir()
		par.Serve(func(b []byte) []byte {
			var j c11Job
			_ = json.Unmarshal(b, &j)
			r := c11Work(j)
			out, _ := json.Marshal(r)
			return out
		})
	}
}

// C11 runs the meta-damage sweep.
func C11(tier string) int {
	start := time.Now()
	LoadFindings()
	sizes := []int{1024, 4096, 16384}
	progs := []int{1, 3}
	if tier == "thorough" {
		progs = []int{0, 1, 2, 3, 4}
	}
	var meta []c11Job
	for _, ps := range sizes {
		for _, pg := range progs {
			flt := "array"
			if pg%2 == 0 {
				flt = "hashmap"
			}
			for slot := 0; slot < 2; slot++ {
				for lo := 0; lo < 64; lo += 4 {
					meta = append(meta, c11Job{PS: ps, FL: flt, Prog: pg, Kind: "byte", Slot: slot, PosLo: lo, PosHi: lo + 4})
				}
				for lo := 0; lo < 64; lo += 16 {
					meta = append(meta, c11Job{PS: ps, FL: flt, Prog: pg, Kind: "both", Slot: slot, PosLo: lo, PosHi: lo + 16})
				}
			}
			meta = append(meta, c11Job{PS: ps, FL: flt, Prog: pg, Kind: "torn"})
			meta = append(meta, c11Job{PS: ps, FL: flt, Prog: pg, Kind: "nondb"})
			step := 2 * ps / 8
			for lo := 0; lo < 2*ps; lo += step {
				meta = append(meta, c11Job{PS: ps, FL: flt, Prog: pg, Kind: "short", PosLo: lo, PosHi: lo + step})
			}
		}
	}
	var jobs [][]byte
	for _, j := range meta {
		b, _ := json.Marshal(j)
		jobs = append(jobs, b)
	}
	pool := par.NewPool(Workers(), "worker", "c11")
	pool.Timeout = 15 * time.Minute // backstop only (jobs take seconds)
	defer pool.Close()
	var cases, opens, fallback, rejected int
	var viols, errs []string
	_ = pool.Run(jobs, func(r par.Result) {
		j := meta[r.Idx]
		if r.Died || r.Hung {
			msg := fmt.Sprintf("worker died or hung in job %+v: %s", j, lastLine(r.Stderr))
			if len(viols) < 5 {
				p := evid.Replay("C11", map[string]interface{}{"property": "C11", "engine": "c11", "job": j, "msg": msg})
				viols = append(viols, p)
				evid.Violation("C11", p)
				fmt.Println("  " + msg)
			}
			return
		}
		var res c11Res
		if err := json.Unmarshal(r.Out, &res); err != nil {
			errs = append(errs, err.Error())
			return
		}
		cases += res.Cases
		opens += res.Opens
		fallback += res.Fallback
		rejected += res.Rejected
		if res.Err != "" {
			errs = append(errs, res.Err)
		}
		if res.Fail != "" && len(viols) < 5 {
			j.Replay, j.Case = true, res.FailCase
			p := evid.Replay("C11", map[string]interface{}{"property": "C11", "engine": "c11", "job": j, "msg": res.Fail})
			viols = append(viols, p)
			evid.Violation("C11", p)
			fmt.Printf("  page size %d, state %d: %s\n", j.PS, j.Prog, res.Fail)
		}
	})
	cov := map[string]interface{}{
		"states": cases, "transitions": opens, "traces_validated_against_impl": opens, "evaluations": cases, "distinct_nontrivial": fallback + rejected,
		"rule":       "for each file at rest (states built through the API, last activity a successful commit) at page sizes 1024/4096/16384: every byte position 0..63 of the meta structure x all 255 other values in meta 0 and in meta 1; every contiguous byte range of a would-be next meta laid over its slot (3240); both metas damaged (every position x 51 values in one, 8 representative damages in the other); every file length from 1 byte to two pages minus one; non-databases; each case opened read-write and read-only with the page-size option unset / equal / different (rotating); an own FNV-1a decides which slots are still valid: exactly the state of the surviving meta with the highest txid must be presented (full dump forwards and backwards, Tx.Check, follow-up commit on a sample) or, with none valid, an error without panic. distinct_nontrivial = cases that needed the older meta or had to be rejected",
		"samples":    []string{"meta 1 byte 48 += 1 (txid field of the newer meta): falls back to the older meta", "would-be meta bytes [16,71) over slot 0", "file truncated to 1023 bytes", "wrong version with valid checksum"},
		"exhaustive": len(errs) == 0, "harness_errors": errs, "fallback_cases": fallback, "rejected_cases": rejected, "opens": opens,
	}
	ev := &evid.Evidence{PropertyID: "C11", Tier: tier, Level: "model_checking", Coverage: cov, Violations: len(viols),
		Assumptions: []string{"a file truncated inside its data area (at least two pages long) is outside the statement", "an empty file is a new database by definition"}}
	if err := ev.Write(start); err != nil {
		return 2
	}
	for i, e := range errs {
		if i < 5 {
			fmt.Fprintln(os.Stderr, "harness error:", e)
		}
	}
	if len(viols) > 0 {
		return 1
	}
	if len(errs) > 0 {
		return 2
	}
	fmt.Printf("C11 %s: OK cases=%d opens=%d fallback=%d rejected=%d wall=%.1fs\n", tier, cases, opens, fallback, rejected, time.Since(start).Seconds())
	return 0
}
