package checks

import (
	"fmt"
	"time"

	bolt "go.etcd.io/bbolt"
	"go.etcd.io/bbolt/zverif/apix"
	"go.etcd.io/bbolt/zverif/hx"
	"go.etcd.io/bbolt/zverif/refmodel"
)

// modelKeyN: what Bucket.Stats().KeyN documents: every key of the bucket and of all nested buckets (bucket entries count as keys).
func modelKeyN(n *refmodel.Node) int {
	c := len(n.Ent)
	for _, e := range n.Ent {
		if e.Sub != nil {
			c += modelKeyN(e.Sub)
		}
	}
	return c
}

func checkInspect(bs bolt.BucketStructure, n *refmodel.Node, path string) string {
	plain := 0
	var subs []string
	for _, k := range n.Keys() {
		if n.Ent[k].Sub != nil {
			subs = append(subs, k)
		} else {
			plain++
		}
	}
	if bs.KeyN != plain {
		return fmt.Sprintf("%s: Inspect KeyN %d, model %d", path, bs.KeyN, plain)
	}
	if len(bs.Children) != len(subs) {
		return fmt.Sprintf("%s: Inspect lists %d children, model %d", path, len(bs.Children), len(subs))
	}
	for i, c := range bs.Children {
		if c.Name != subs[i] {
			return fmt.Sprintf("%s: Inspect child %d name %q, model %q", path, i, c.Name, subs[i])
		}
		if d := checkInspect(c, n.Ent[subs[i]].Sub, path+"/"+subs[i]); d != "" {
			return d
		}
	}
	return ""
}

// boundaryC04: key counts as reported by the database equal the model's, in a read transaction on committed data.
func boundaryC04(x *apix.Exec, kind string) *apix.Fail {
	tx, err := x.DB.Begin(false)
	if err != nil {
		return &apix.Fail{Kind: "mismatch", At: -1, Msg: "Begin(false): " + err.Error()}
	}
	defer func() { _ = tx.Rollback() }()
	for _, k := range x.Committed.Keys() {
		b := tx.Bucket([]byte(k))
		if b == nil {
			return &apix.Fail{Kind: "mismatch", At: -1, Msg: fmt.Sprintf("after %s: bucket %q missing", kind, k)}
		}
		if got, want := b.Stats().KeyN, modelKeyN(x.Committed.Ent[k].Sub); got != want {
			return &apix.Fail{Kind: "mismatch", At: -1, Msg: fmt.Sprintf("after %s: Bucket(%q).Stats().KeyN=%d, model %d", kind, k, got, want)}
		}
	}
	if d := checkInspect(tx.Inspect(), x.Committed, ""); d != "" {
		return &apix.Fail{Kind: "mismatch", At: -1, Msg: "after " + kind + ": " + d}
	}
	return nil
}

func init() {
	hx.Registry["c04-flat"] = func(tier string) []*hx.Scope {
		n := 5
		seeds := []string{"empty", "inline", "twolevel"}
		if tier == "thorough" {
			n = 6
			seeds = []string{"empty", "inline", "leaf", "twolevel", "threelevel", "overflow", "bigkeys"}
		}
		return mk("c04-flat", seeds, cfgs(tier), n, 2, flatAlphabet([]string{"a", "b", "L1"}, []string{"s", "X"}, true), boundaryC04)
	}
	// S4: argument and state errors - empty / oversized / maximal keys, empty bucket names, operations on a closed
	// transaction, write attempts through a read transaction; each must return the documented error and change nothing
	hx.Registry["c04-errors"] = func(tier string) []*hx.Scope {
		en := func(x *apix.Exec, t *hx.Track, left int) []apix.Op {
			if left <= 0 {
				return nil
			}
			var ops []apix.Op
			if x.Readers[0] == nil {
				ops = append(ops, apix.Op{K: "beginR", N: 0})
			} else {
				pp := P("p")
				ops = append(ops, apix.Op{K: "closeR", N: 0}, apix.Op{K: "rput", N: 0, P: pp, Key: "a"}, apix.Op{K: "rdel", N: 0, P: pp, Key: "a"},
					apix.Op{K: "rmkb", N: 0, Key: "n"}, apix.Op{K: "rdelb", N: 0, Key: "p"}, apix.Op{K: "rseq", N: 0, P: pp})
			}
			ops = append(ops, apix.Op{K: "deadput"}, apix.Op{K: "deadmkb"}, apix.Op{K: "deadcommit"}, apix.Op{K: "deadrollback"})
			if x.W == nil {
				if left >= 2 {
					ops = append(ops, beginW)
				}
				return ops
			}
			ops = append(ops, txEnd()...)
			if left == 1 {
				return txEnd()
			}
			pp := P("p")
			if x.WM.Resolve(pp) == nil {
				return append(ops, op("mkb", nil, "p", ""), op("mkb", nil, "EMPTY", ""), op("mkbi", nil, "EMPTY", ""), op("delb", nil, "EMPTY", ""))
			}
			for _, k := range []string{"EMPTY", "HUGE", "MAXK", "a"} {
				ops = append(ops, op("put", pp, k, "s"))
			}
			for _, k := range []string{"EMPTY", "a"} {
				ops = append(ops, op("del", pp, k, ""), op("get", pp, k, ""))
			}
			ops = append(ops, op("mkb", pp, "EMPTY", ""), op("mkb", pp, "a", ""), op("mkbi", pp, "a", ""), op("delb", pp, "a", ""), op("delb", pp, "EMPTY", ""),
				op("cdel", pp, "a", ""), op("mkb", nil, "p", ""), apix.Op{K: "mvb", Key: "p", D: []string{"p"}}, apix.Op{K: "mvb", P: pp, Key: "a"}, apix.Op{K: "mvb", Key: "nope", D: []string{"p"}})
			return ops
		}
		n := 4
		if tier == "thorough" {
			n = 5
		}
		cs := cfgs(tier)[:1]
		cs[0].InitialMmapSize = 1 << 20 // a reader shares the goroutine with the writer: no commit may have to remap
		return mk("c04-errors", []string{"empty", "inline"}, cs, n, 2, en, boundaryC04)
	}
	hx.Registry["c04-nested"] = func(tier string) []*hx.Scope {
		n, depth := 5, 2
		seeds := []string{"empty", "nested"}
		if tier == "thorough" {
			n, depth = 6, 3
		}
		return mk("c04-nested", seeds, cfgs(tier)[:2], n, 2, nestedAlphabet([]string{"p", "q"}, depth, true), boundaryC04)
	}
}

// C04 runs the nested-ordered-map conformance check.
func C04(tier string) int {
	return RunHX(HXCheck{
		Prop: "C04", Level: "model_checking", Scopes: []string{"c04-flat", "c04-errors", "c04-nested"},
		Rule: "breadth-first enumeration of all API programs within the operation bound from each seed state and configuration; every transition is executed by the real code and compared with the reference model (return values, errors, full dump inside the write tx after every op, full dump forwards and backwards + key counts through a fresh read tx at every tx boundary); states are distinct exact state keys (file bytes + in-memory freelist, or begin-key + effective op list inside a write tx)",
		Assumptions: []string{"reference model refmodel implements the documented API contract (DESIGN.md appendix A)",
			"keys from a small colliding alphabet incl. one key of pageSize/3 bytes; values of classes empty/8 bytes/0.3 page/2.5 pages",
			"state merging by exact key: reads and failed operations are executed and checked once but not extended"},
		Quick: 100 * time.Second, Thorough: 10 * time.Minute,
	}, tier)
}
