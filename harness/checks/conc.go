package checks

import (
	"fmt"
	"os"
	"sort"
	"strconv"
	"strings"

	bolt "go.etcd.io/bbolt"
	fl "go.etcd.io/bbolt/internal/freelist"
	"go.etcd.io/bbolt/zverif/apix"
	"go.etcd.io/bbolt/zverif/hx"
	"go.etcd.io/bbolt/zverif/mc"
	"go.etcd.io/bbolt/zverif/vsync"
)

// ---- common environment of the concurrent drivers ----

type txrec struct {
	who      string
	kind     string // U update, V view, B manual begin
	id       int
	reads    map[string]int
	writes   map[string]int
	outcome  string // commit | error | panic | rollback | view
	start    int
	end      int
	bodyRuns int
}

type cenv struct {
	s      *vsync.Session
	db     *bolt.DB
	path   string
	recs   []*txrec
	active int // writer bodies currently between Begin return and end
	fails  []string
	clock  int
	id0    int
	init   map[string]int
	tap    *apix.Tap
	faults bool
	note   string
	// failNextSync: the next fdatasync fails once (set by a writer body right before it returns, so it is that
	// writer's own commit that fails)
	failNextSync bool
}

func (e *cenv) failf(f string, a ...interface{}) {
	if len(e.fails) < 5 {
		e.fails = append(e.fails, fmt.Sprintf(f, a...))
	}
}

func (e *cenv) tick() int { e.clock++; return e.clock }

var concSeedCache = map[string][]byte{}

// concSeed builds (natively, once per process) the seed file for concurrent drivers: bucket c with counters.
func concSeed(ps int, flt string, fill int) []byte {
	k := fmt.Sprintf("%d/%s/%d", ps, flt, fill)
	if b, ok := concSeedCache[k]; ok {
		return b
	}
	p := apix.TempPath(hx.WorkDir())
	o := apix.Cfg{PageSize: ps, Freelist: flt}.Options()
	db, err := bolt.Open(p, 0600, o)
	if err != nil {
		panic(err)
	}
	err = db.Update(func(tx *bolt.Tx) error {
		b, _ := tx.CreateBucket([]byte("c"))
		_ = b.Put([]byte("x"), []byte("0"))
		_ = b.Put([]byte("y"), []byte("0"))
		for i := 0; i < fill; i++ {
			_ = b.Put([]byte(fmt.Sprintf("k%03d", i)), []byte(strings.Repeat("v", ps*3/10)))
		}
		return nil
	})
	if err != nil {
		panic(err)
	}
	// a second commit so that there are free pages to recycle
	_ = db.Update(func(tx *bolt.Tx) error { return tx.Bucket([]byte("c")).Put([]byte("y"), []byte("0")) })
	db.Close()
	b, _ := os.ReadFile(p)
	os.Remove(p)
	concSeedCache[k] = b
	return b
}

func getInt(b *bolt.Bucket, k string) int {
	v := b.Get([]byte(k))
	if v == nil {
		return -1
	}
	n, err := strconv.Atoi(string(v))
	if err != nil {
		return -2
	}
	return n
}

// openEnv creates the database file and opens it inside the session.
func openEnv(s *vsync.Session, ps int, flt string, fill int, opt func(o *bolt.Options)) (*cenv, error) {
	e := &cenv{s: s, init: map[string]int{"x": 0, "y": 0}}
	e.path = apix.TempPath(hx.WorkDir())
	if err := os.WriteFile(e.path, concSeed(ps, flt, fill), 0600); err != nil {
		return nil, err
	}
	o := apix.Cfg{PageSize: ps, Freelist: flt}.Options()
	if opt != nil {
		opt(o)
	}
	e.tap = &apix.Tap{}
	e.tap.OnIO = append(e.tap.OnIO, func(ev *apix.IOEvent) error {
		vsync.Yield() // every I/O call is a scheduling point
		if e.failNextSync && ev.Op == bolt.VerifFdatasync {
			e.failNextSync = false
			return &apix.InjectedError{What: "fdatasync"}
		}
		return nil
	})
	apix.SetTap(e.tap)
	db, err := bolt.Open(e.path, 0600, o)
	if err != nil {
		return nil, err
	}
	e.db = db
	_ = db.View(func(tx *bolt.Tx) error { e.id0 = tx.ID(); return nil })
	return e, nil
}

func (e *cenv) close() {
	if len(e.fails) == 0 {
		e.finalAccounting()
	}
	apix.SetTap(nil)
	if e.db != nil {
		_ = e.db.Close()
	}
	os.Remove(e.path)
}

// update runs db.Update with a read-modify-write body over the given keys; mode: ok | err | panic.
func (e *cenv) update(who string, keys []string, mode string) *txrec {
	r := &txrec{who: who, kind: "U", reads: map[string]int{}, writes: map[string]int{}, start: e.tick(), id: -1}
	e.recs = append(e.recs, r)
	func() {
		defer func() {
			if p := recover(); p != nil {
				if fmt.Sprint(p) == "boom" {
					r.outcome = "panic"
				} else {
					r.outcome = "panic"
					e.failf("%s: unexpected panic: %v", who, p)
				}
			}
		}()
		err := e.db.Update(func(tx *bolt.Tx) error {
			e.active++
			defer func() { e.active-- }()
			if e.active > 1 {
				e.failf("%s: two write transactions open at the same time", who)
			}
			r.bodyRuns++
			r.id = tx.ID()
			b := tx.Bucket([]byte("c"))
			for _, k := range keys {
				v := getInt(b, k)
				r.reads[k] = v
				vsync.Yield()
				if err := b.Put([]byte(k), []byte(strconv.Itoa(v+1))); err != nil {
					return err
				}
				r.writes[k] = v + 1
				if g := getInt(b, k); g != v+1 {
					e.failf("%s: read-your-own-write of %s gave %d, want %d", who, k, g, v+1)
				}
			}
			vsync.Yield()
			if e.active > 1 {
				e.failf("%s: two write transactions open at the same time", who)
			}
			switch mode {
			case "err":
				return fmt.Errorf("body error")
			case "panic":
				panic("boom")
			case "iofail":
				e.failNextSync = true // this transaction's commit fails at its first sync
			}
			return nil
		})
		switch {
		case err == nil:
			r.outcome = "commit"
		case err.Error() == "body error":
			r.outcome = "error"
		default:
			r.outcome = "fail:" + apix.ErrName(err)
		}
	}()
	r.end = e.tick()
	return r
}

// view reads the keys in a read transaction (twice, with a yield in between: the snapshot must not move).
func (e *cenv) view(who string, keys []string) *txrec {
	r := &txrec{who: who, kind: "V", reads: map[string]int{}, start: e.tick(), id: -1, outcome: "view"}
	e.recs = append(e.recs, r)
	err := e.db.View(func(tx *bolt.Tx) error {
		r.id = tx.ID()
		b := tx.Bucket([]byte("c"))
		for _, k := range keys {
			r.reads[k] = getInt(b, k)
		}
		vsync.Yield()
		for _, k := range keys {
			if g := getInt(tx.Bucket([]byte("c")), k); g != r.reads[k] {
				e.failf("%s: value of %s changed inside one read transaction: %d then %d", who, k, r.reads[k], g)
			}
		}
		if tx.ID() != r.id {
			e.failf("%s: read transaction id changed", who)
		}
		return nil
	})
	if err != nil {
		r.outcome = "fail:" + apix.ErrName(err)
	}
	r.end = e.tick()
	return r
}

// checkSerial is the C03 oracle over the recorded transactions and the final content.
func (e *cenv) checkSerial(final map[string]int) {
	var ws []*txrec
	for _, r := range e.recs {
		if r.kind != "V" && r.outcome == "commit" {
			ws = append(ws, r)
		}
	}
	sort.Slice(ws, func(i, j int) bool { return ws[i].id < ws[j].id })
	state := map[string]int{}
	for k, v := range e.init {
		state[k] = v
	}
	versions := map[int]map[string]int{e.id0: copyMap(state)}
	next := e.id0 + 1
	for _, w := range ws {
		if w.id != next {
			e.failf("committed write transaction ids not consecutive: got %d, expected %d", w.id, next)
		}
		for k, v := range w.reads {
			if state[k] != v {
				e.failf("%s (tx %d) read %s=%d, serial replay in id order has %d (lost update or dirty read)", w.who, w.id, k, v, state[k])
			}
		}
		for k, v := range w.writes {
			state[k] = v
		}
		versions[w.id] = copyMap(state)
		next = w.id + 1
	}
	for _, r := range e.recs {
		if r.id < 0 {
			continue
		}
		switch {
		case r.kind == "V" && r.outcome == "view":
			ver, ok := versions[r.id]
			if !ok {
				e.failf("%s: reader id %d names no committed version", r.who, r.id)
				continue
			}
			for k, v := range r.reads {
				if ver[k] != v {
					e.failf("%s: reader of version %d saw %s=%d, that version has %d", r.who, r.id, k, v, ver[k])
				}
			}
		case r.kind != "V" && r.outcome != "commit":
			ver, ok := versions[r.id-1]
			if !ok {
				e.failf("%s: aborted writer id %d does not follow a committed version", r.who, r.id)
				continue
			}
			for k, v := range r.reads {
				if ver[k] != v {
					e.failf("%s: aborted writer (id %d) read %s=%d, version %d has %d", r.who, r.id, k, v, r.id-1, ver[k])
				}
			}
		}
	}
	// real-time order
	for _, a := range e.recs {
		if a.kind == "V" || a.outcome != "commit" {
			continue
		}
		for _, b := range e.recs {
			if b.id < 0 || a.end >= b.start {
				continue
			}
			if b.kind == "V" && b.id < a.id {
				e.failf("%s began after %s had returned but does not see it (reader id %d < %d)", b.who, a.who, b.id, a.id)
			}
			if b.kind != "V" && b.id <= a.id {
				e.failf("%s began after %s had returned but has id %d <= %d", b.who, a.who, b.id, a.id)
			}
		}
	}
	for k, v := range state {
		if final[k] != v {
			e.failf("final content %s=%d, serial replay of committed transactions gives %d", k, final[k], v)
		}
	}
}

func copyMap(m map[string]int) map[string]int {
	c := map[string]int{}
	for k, v := range m {
		c[k] = v
	}
	return c
}

func (e *cenv) finalState() map[string]int {
	out := map[string]int{}
	err := e.db.View(func(tx *bolt.Tx) error {
		b := tx.Bucket([]byte("c"))
		for k := range e.init {
			out[k] = getInt(b, k)
		}
		return nil
	})
	if err != nil {
		e.failf("final View: %v", err)
	}
	return out
}

// finalAccounting is the end-state oracle of every concurrent driver: once all threads have finished, the file
// must account for every page exactly once (independent decoder), the in-memory free list must be exactly the
// decoder's set of free pages, and Tx.Check must be silent. A schedule-dependent corruption of allocator state
// that nothing has read yet shows up here.
func (e *cenv) finalAccounting() {
	if e.db == nil {
		return
	}
	data, err := os.ReadFile(e.path)
	if err != nil {
		e.failf("final accounting: %v", err)
		return
	}
	ps := bolt.VerifPageSize(e.db)
	_, st, err := apix.DecodeBytes(data, ps)
	if err != nil {
		e.failf("final accounting: %v", err)
		return
	}
	if len(st.Problems) > 0 {
		e.failf("final page accounting: %s", st.Problems[0])
		return
	}
	if f := bolt.VerifFreelist(e.db); f != nil {
		d := fl.VerifDump(f)
		mem := map[uint64]bool{}
		for _, id := range d.Free {
			if mem[uint64(id)] {
				e.failf("final accounting: page %d twice in the in-memory free list", id)
			}
			mem[uint64(id)] = true
		}
		for _, l := range d.Pending {
			for _, p := range l {
				if mem[uint64(p.ID)] {
					e.failf("final accounting: page %d both free and pending in memory", p.ID)
				}
				mem[uint64(p.ID)] = true
			}
		}
		for id, u := range st.Use {
			if (u == "free") != mem[uint64(id)] {
				e.failf("final accounting: page %d is %q in the file but in the in-memory free list: %v", id, u, mem[uint64(id)])
				break
			}
		}
	}
	_ = e.db.View(func(tx *bolt.Tx) error {
		for er := range vsync.RecvFrom(tx.Check()).Range() {
			e.failf("final Tx.Check: %v", er)
		}
		return nil
	})
}

func (e *cenv) obs() string {
	var parts []string
	for _, r := range e.recs {
		parts = append(parts, fmt.Sprintf("%s:%s#%d%v", r.who, r.outcome, r.id-e.id0, sortedKV(r.reads)))
	}
	return strings.Join(parts, " ")
}

func sortedKV(m map[string]int) string {
	var ks []string
	for k := range m {
		ks = append(ks, k)
	}
	sort.Strings(ks)
	s := ""
	for _, k := range ks {
		s += fmt.Sprintf("%s=%d,", k, m[k])
	}
	return s
}

func (e *cenv) outcome() mc.Outcome {
	o := mc.Outcome{Obs: e.obs(), Note: e.note}
	if len(e.fails) > 0 {
		o.Fail = strings.Join(e.fails, " | ")
	}
	return o
}
