package checks

import (
	"encoding/json"
	"fmt"
	"os"
	"strings"
	"time"

	bolt "go.etcd.io/bbolt"
	"go.etcd.io/bbolt/zverif/apix"
	"go.etcd.io/bbolt/zverif/evid"
	"go.etcd.io/bbolt/zverif/hx"
	"go.etcd.io/bbolt/zverif/par"
)

// ---- C13: options change performance, never content ----

// optCfg decodes an option assignment from its bit mask.
func optCfg(mask int, ps int, mlockOK bool) apix.Cfg {
	c := apix.Cfg{PageSize: ps, Freelist: "array"}
	if mask&1 != 0 {
		c.Freelist = "hashmap"
	}
	c.NoFreelistSync = mask&2 != 0
	c.NoGrowSync = mask&4 != 0
	if mask&8 != 0 {
		c.InitialMmapSize = 256 << 10
	}
	c.Mlock = mask&16 != 0 && mlockOK
	c.StrictMode = mask&32 != 0
	c.PreLoad = mask&64 != 0
	if mask&128 != 0 {
		c.PageSizeOpt = 8192 // a wrong page-size option: must be ignored for an existing file
	}
	return c
}

var c13Txs = [][]apix.Op{
	{beginW, op("mkb", nil, "p", ""), {K: "fill", P: P("p"), Key: "k", V: "M", N: 9}, op("mkb", P("p"), "q", ""), {K: "fill", P: P("p", "q"), Key: "n", V: "M", N: 6}, op("put", P("p", "q"), "a", "s"), {K: "seqset", P: P("p"), N: 4},
		// giant keys: branch and leaf pages with overflow pages (what a free-page scan must not hand out)
		op("mkb", nil, "r", ""), {K: "fill", P: P("r"), Key: "G", V: "s", N: 7}, commit},
	// only the nested bucket /p/q and a new top-level bucket are touched (the parent /p is merely traversed), and the
	// transaction outgrows a 32 KiB map: with InitialMmapSize 0 the commit remaps while nodes of /p/q are unspilled
	{beginW, {K: "fill", P: P("p", "q"), Key: "g", V: "X", N: 14}, op("del", P("p", "q"), "n002", ""), op("mkb", nil, "q", ""), {K: "fill", P: P("q"), Key: "g", V: "M", N: 5}, commit,
		beginW, op("put", P("p"), "k003", "X"), op("del", P("p"), "k005", ""), op("del", P("p"), "k006", ""), commit},
	{beginW, op("delb", P("p"), "q", ""), {K: "drain", P: P("q")}, op("put", P("p"), "k003", "s"), {K: "seqnext", P: P("p")}, commit,
		beginW, op("put", P("q"), "z", "M"), rollback},
}

var c13TxsNoGiant = []apix.Op{beginW, op("mkb", nil, "p", ""), {K: "fill", P: P("p"), Key: "k", V: "M", N: 9}, op("mkb", P("p"), "q", ""), {K: "fill", P: P("p", "q"), Key: "n", V: "M", N: 6}, op("put", P("p", "q"), "a", "s"), {K: "seqset", P: P("p"), N: 4}, commit}

type c13Job struct {
	PS     int   `json:"ps"`
	Hist   int   `json:"hist,omitempty"`
	C0     []int `json:"c0"`
	C1     []int `json:"c1"`
	C2     []int `json:"c2"`
	Mlock  bool  `json:"mlock"`
	Replay bool  `json:"replay"`
}

type c13Res struct {
	Runs     int     `json:"runs"`
	Opens    int     `json:"opens"`
	Ops      int     `json:"ops"`
	Fail     string  `json:"fail,omitempty"`
	FailJob  *c13Job `json:"fail_job,omitempty"`
	Err      string  `json:"err,omitempty"`
	Remapped int     `json:"remapped,omitempty"` // failing transactions whose failed call was the remap (database reopened afterwards)
	EnvSkip  int     `json:"env_skip,omitempty"` // runs repeated without Mlock because the kernel refused to lock memory
}

func c13Run(ps int, hist int, m0, m1, m2 int, mlock bool, res *c13Res) string {
	path := apix.TempPath(hx.WorkDir())
	defer os.Remove(path)
	c0 := optCfg(m0&^128, ps, mlock)
	x, f := apix.NewExec(path, c0, nil)
	if f != nil {
		return "create: " + f.Error()
	}
	defer x.Close()
	res.Runs++
	res.Opens++
	x.OnBoundary = func(x *apix.Exec, kind string) *apix.Fail {
		_, f := x.CheckFile("after " + kind)
		return f
	}
	do := func(ops []apix.Op) string {
		for _, o := range ops {
			res.Ops++
			if f := x.Do(o); f != nil && !(o.K == "commitF" && f.Kind == "error") {
				return f.Error()
			}
		}
		return ""
	}
	roProbe := func(preload bool) string {
		c := apix.Cfg{ReadOnly: true, PreLoad: preload, Freelist: x.Cfg.Freelist}
		res.Opens += 2
		if msg := do([]apix.Op{{K: "reopen", Cfg: &c}}); msg != "" {
			return fmt.Sprintf("read-only open (preload=%v): %s", preload, msg)
		}
		if _, err := x.DB.Begin(true); apix.ErrName(err) != "ErrDatabaseReadOnly" {
			return fmt.Sprintf("Begin(true) on a read-only database: %v", err)
		}
		return ""
	}
	first := c13Txs[0]
	if hist == 1 {
		// second history: without the giant-key bucket (different file sizes: among other things the map is exactly full
		// when the failing transaction after a reopen starts, so that its first I/O call is the remap)
		first = c13TxsNoGiant
	}
	if msg := do(first); msg != "" {
		return msg
	}
	for i, m := range []int{m1, m2} {
		// a read-only look (alternating preload) between the read-write opens
		if msg := roProbe(i == 0); msg != "" {
			return msg
		}
		c := optCfg(m, ps, mlock)
		res.Opens++
		if msg := do([]apix.Op{{K: "reopen", Cfg: &c}}); msg != "" {
			return fmt.Sprintf("reopen %d with %s: %s", i+1, c.String(), msg)
		}
		// the first transaction after the reopen fails at its first I/O call (physical rollback under the new options)
		if msg := do([]apix.Op{beginW, op("put", P("p"), "failed", "M"), {K: "commitF", N: 0, V: "fail"}}); msg != "" {
			return fmt.Sprintf("failing transaction after reopen %d with %s: %s", i+1, c.String(), msg)
		}
		if x.Unmapped {
			// the first I/O call of that transaction was the remap (the map happened to be exactly full) and it is the one
			// that failed: as documented, the handle reports ErrInvalidMapping until the database is reopened - reopen
			// with the same options and go on (the old build of this check reported that state as a violation at page
			// size 4096: a false alarm of the harness, found by a thorough run)
			res.Opens++
			res.Remapped++
			if msg := do([]apix.Op{{K: "reopen", Cfg: &c}}); msg != "" {
				return fmt.Sprintf("reopen %d with %s after a failed remap: %s", i+1, c.String(), msg)
			}
		}
		if msg := do(c13Txs[i+1]); msg != "" {
			return fmt.Sprintf("after reopen %d with %s: %s", i+1, c.String(), msg)
		}
	}
	if msg := roProbe(true); msg != "" {
		return msg
	}
	return ""
}

// c13EnvErr recognises failures that come from resource limits of the machine.
func c13EnvErr(msg string) bool {
	for _, s := range []string{"mlock error", "munlock error", "cannot allocate memory", "no space left on device", "too many open files", "resource temporarily unavailable"} {
		if strings.Contains(msg, s) {
			return true
		}
	}
	return false
}

func c13Work(job c13Job) c13Res {
	var res c13Res
	for _, a := range job.C0 {
		for _, b := range job.C1 {
			for _, c := range job.C2 {
				msg := c13Run(job.PS, job.Hist, a, b, c, job.Mlock, &res)
				if msg != "" && c13EnvErr(msg) {
					// the kernel refused a resource (locked memory, address space, tmpfs space, descriptors): a limit of the
					// machine, not a property of the code; the same schedule is run again without Mlock and the incident counted
					res.EnvSkip++
					msg = c13Run(job.PS, job.Hist, a, b, c, false, &res)
					if msg != "" && c13EnvErr(msg) {
						res.Err = "resource failure of the machine, twice: " + msg
						return res
					}
				}
				if msg != "" {
					res.Fail = fmt.Sprintf("page size %d, options at creation %s, at first reopen %s, at second reopen %s: %s", job.PS,
						optCfg(a&^128, job.PS, job.Mlock).String(), optCfg(b, job.PS, job.Mlock).String(), optCfg(c, job.PS, job.Mlock).String(), msg)
					res.FailJob = &c13Job{PS: job.PS, Hist: job.Hist, C0: []int{a}, C1: []int{b}, C2: []int{c}, Mlock: job.Mlock, Replay: true}
					return res
				}
			}
		}
	}
	return res
}

func init() {
	f := func(b []byte) []byte {
		var j c13Job
		_ = json.Unmarshal(b, &j)
		r := c13Work(j)
		out, _ := json.Marshal(r)
		return out
	}
	JobFuncs["c13"] = f
	WorkerKinds["c13"] = func() { defer hx.CleanWorkDir(); par.Serve(f) }
}

func mlockWorks() bool {
	p := apix.TempPath(hx.WorkDir())
	defer os.Remove(p)
	db, err := bolt.Open(p, 0600, &bolt.Options{Mlock: true, PageSize: 1024})
	if err != nil {
		return false
	}
	err = db.Update(func(tx *bolt.Tx) error { _, e := tx.CreateBucket([]byte("p")); return e })
	db.Close()
	return err == nil
}

// C13 runs the option-schedule sweep.
func C13(tier string) int {
	start := time.Now()
	LoadFindings()
	mlock := mlockWorks()
	hx.CleanWorkDir()
	all := make([]int, 256)
	for i := range all {
		all[i] = i
	}
	// assignments differing from the default in at most k settings
	few := func(k int) []int {
		var out []int
		for m := 0; m < 256; m++ {
			n := 0
			for b := 0; b < 8; b++ {
				if m&(1<<uint(b)) != 0 {
					n++
				}
			}
			if n <= k {
				out = append(out, m)
			}
		}
		return out
	}
	var meta []c13Job
	sizes := []int{1024}
	c0s, c2s := few(1), few(2) // quick: creation with 0..1 of the first settings changed; third open <= 1 change
	if tier == "thorough" {
		sizes = []int{1024, 4096}
		c0s, c2s = all[:64], few(2)
	}
	hists := []int{0}
	if tier == "thorough" {
		hists = []int{0, 1}
	}
	for _, h := range hists {
		for _, ps := range sizes {
			for _, a := range c0s {
				if h == 1 && a >= 16 {
					continue // second history: creation options restricted to the first four settings
				}
				for lo := 0; lo < 256; lo += 16 {
					meta = append(meta, c13Job{PS: ps, Hist: h, C0: []int{a}, C1: all[lo : lo+16], C2: c2s, Mlock: mlock})
				}
			}
		}
	}
	var jobs [][]byte
	for _, j := range meta {
		b, _ := json.Marshal(j)
		jobs = append(jobs, b)
	}
	pool := par.NewPool(Workers(), "worker", "c13")
	pool.Timeout = 20 * time.Minute
	defer pool.Close()
	runs, opens, ops, envSkips, remapped := 0, 0, 0, 0, 0
	var viols, errs []string
	deadline := start.Add(100 * time.Second)
	if tier == "thorough" {
		deadline = start.Add(40 * time.Minute)
	}
	skipped := 0
	_ = pool.Run(jobs, func(r par.Result) {
		j := meta[r.Idx]
		if r.Died || r.Hung {
			errs = append(errs, fmt.Sprintf("worker died/hung on %+v: %s", j, lastLine(r.Stderr)))
			return
		}
		var res c13Res
		if err := json.Unmarshal(r.Out, &res); err != nil {
			errs = append(errs, err.Error())
			return
		}
		runs += res.Runs
		opens += res.Opens
		ops += res.Ops
		envSkips += res.EnvSkip
		remapped += res.Remapped
		if res.Err != "" {
			errs = append(errs, res.Err)
		}
		if res.Fail != "" && len(viols) < 5 {
			p := evid.Replay("C13", map[string]interface{}{"property": "C13", "engine": "c13", "job": res.FailJob, "msg": res.Fail})
			viols = append(viols, p)
			evid.Violation("C13", p)
			fmt.Println("  " + res.Fail)
		}
	})
	_ = deadline
	cov := map[string]interface{}{
		"states": runs, "transitions": ops, "traces_validated_against_impl": ops, "evaluations": runs, "distinct_nontrivial": runs,
		"rule":          "exhaustive enumeration of option schedules for a history with two reopen points (thorough: a second history without the giant-key bucket, creation options restricted to the first four settings) (create + fill + nested bucket with content + sequence; reopen; a transaction that touches only the nested bucket and outgrows a 32 KiB map, then overwrites/deletes in the parent; reopen; nested bucket delete, drain, sequence, a rolled-back transaction; the first transaction after each reopen fails at its first I/O call): every assignment of {freelist backend, NoFreelistSync, NoGrowSync, InitialMmapSize 0/256 KiB, Mlock, StrictMode, PreLoadFreelist, wrong page-size option} at the first reopen (256) x the assignments listed for creation and for the second reopen (see schedule_sets), with a read-only open (with and without preloading) between the read-write opens and at the end; every API result and every dump is compared with the reference model, and after every open and commit the loaded free list must equal the decoder's set of unreachable pages and page accounting must be exact",
		"samples":       []string{"create {array}, reopen {hashmap,nfs,ngs,imm=256K,strict,preload,psopt=8192}, reopen {hashmap}", "create {nfs}, read-only open without preload, reopen {array} (freelist flush commit), ..."},
		"schedule_sets": map[string]int{"creation": len(c0s), "first_reopen": 256, "second_reopen": len(c2s), "page_sizes": len(sizes)},
		"exhaustive":    len(errs) == 0 && skipped == 0, "harness_errors": errs, "opens": opens, "mlock_available": mlock, "runs_repeated_without_mlock_after_kernel_refusal": envSkips, "failing_transactions_that_failed_in_the_remap": remapped,
	}
	ev := &evid.Evidence{PropertyID: "C13", Tier: tier, Level: "model_checking", Coverage: cov, Violations: len(viols),
		Assumptions: []string{"one fixed history; the option space, not the history space, is what this check enumerates (histories are covered by C04/C07 under several configurations)"}}
	if err := ev.Write(start); err != nil {
		return 2
	}
	for i, e := range errs {
		if i < 5 {
			fmt.Fprintln(os.Stderr, "harness error:", e)
		}
	}
	if len(viols) > 0 {
		return 1
	}
	if len(errs) > 0 {
		return 2
	}
	fmt.Printf("C13 %s: OK option schedules=%d opens=%d ops=%d mlock=%v wall=%.1fs\n", tier, runs, opens, ops, mlock, time.Since(start).Seconds())
	return 0
}
