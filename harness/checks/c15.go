package checks

import (
	"fmt"
	"os"
	"path/filepath"
	"sort"
	"strconv"
	"time"

	bolt "go.etcd.io/bbolt"
	"go.etcd.io/bbolt/zverif/apix"
	"go.etcd.io/bbolt/zverif/hx"
	"go.etcd.io/bbolt/zverif/refmodel"
)

// ---- C15: compaction preserves content ----

// kvSizes lists len(k)+len(v) of every item in the order Compact walks them (bucket entry first, then content).
func kvSizes(n *refmodel.Node, out *[]int) {
	for _, k := range n.Keys() {
		e := n.Ent[k]
		if e.Sub != nil {
			*out = append(*out, len(k))
			kvSizes(e.Sub, out)
		} else {
			*out = append(*out, len(k)+len(e.Val))
		}
	}
}

// compactLimits: every limit from 0 to total+1 when that is small, otherwise every limit at which the split
// pattern can change: all sums of consecutive item sizes, each -1, +0, +1.
func compactLimits(model *refmodel.Node, exhaustiveUpTo int) []int64 {
	var sizes []int
	kvSizes(model, &sizes)
	total := 0
	for _, s := range sizes {
		total += s
	}
	set := map[int64]bool{0: true, 1: true, int64(total): true, int64(total) + 1: true, 65536: true}
	if total+1 <= exhaustiveUpTo {
		for l := 0; l <= total+1; l++ {
			set[int64(l)] = true
		}
	} else {
		for i := range sizes {
			sum := 0
			for j := i; j < len(sizes) && j < i+12; j++ {
				sum += sizes[j]
				for d := -1; d <= 1; d++ {
					if sum+d >= 0 {
						set[int64(sum+d)] = true
					}
				}
			}
		}
	}
	var out []int64
	for l := range set {
		out = append(out, l)
	}
	sort.Slice(out, func(i, j int) bool { return out[i] < out[j] })
	return out
}

func compactBoundary(exhaustiveUpTo int) func(x *apix.Exec, kind string) *apix.Fail {
	return func(x *apix.Exec, kind string) *apix.Fail {
		if kind != "commit" {
			return nil
		}
		fail := func(f string, a ...interface{}) *apix.Fail {
			return &apix.Fail{Kind: "mismatch", At: -1, Msg: "[c15] " + fmt.Sprintf(f, a...)}
		}
		d, src, err := scratchCopy(x)
		if err != nil {
			return fail("harness: %v", err)
		}
		defer os.RemoveAll(d)
		before := sha(src)
		ps := x.Cfg.PageSize
		limits := compactLimits(x.Committed, exhaustiveUpTo)
		hx.Counters["source_states"]++
		for i, lim := range limits {
			dst := filepath.Join(d, "dst.db")
			os.Remove(dst)
			hx.Counters["compactions"]++
			if i%3 == 1 {
				// through the command line tool
				if code, out := RunCLI("compact", "-o", dst, "--tx-max-size", strconv.FormatInt(lim, 10), src); code != 0 {
					return fail("`bbolt compact --tx-max-size %d` exits %d: %s", lim, code, lastLine(out))
				}
				hx.Counters["compactions_cli"]++
			} else {
				sdb, err := bolt.Open(src, 0400, &bolt.Options{ReadOnly: true})
				if err != nil {
					return fail("open source: %v", err)
				}
				ddb, err := bolt.Open(dst, 0600, &bolt.Options{PageSize: ps})
				if err != nil {
					sdb.Close()
					return fail("open destination: %v", err)
				}
				cerr := bolt.Compact(ddb, sdb, lim)
				ddb.Close()
				sdb.Close()
				if cerr != nil {
					return fail("Compact with limit %d: %v", lim, cerr)
				}
			}
			if sha(src) != before {
				return fail("compaction with limit %d modified the source file", lim)
			}
			dps := ps
			if i%3 == 1 {
				dps = 0 // the CLI creates the destination with the default page size
			}
			if msg := openAndCheck(dst, dps, x.Committed, -1, false, false); msg != "" {
				return fail("destination after compaction with tx size limit %d: %s", lim, msg)
			}
		}
		return nil
	}
}

func init() {
	hx.Registry["c15-nested"] = func(tier string) []*hx.Scope {
		n, depth, exh := 5, 3, 300
		seeds := []string{"empty", "nested"}
		if tier == "thorough" {
			n, exh = 5, 4096
			seeds = []string{"empty", "nested", "inline"}
		}
		cs := []apix.Cfg{{PageSize: 1024, Freelist: "array"}, {PageSize: 1024, Freelist: "hashmap", NoFreelistSync: true}}
		scs := mk("c15-nested", seeds, cs, n, 0, seqNestedAlphabet([]string{"p", "q"}, depth), compactBoundary(exh))
		if tier != "thorough" {
			for _, sc := range scs {
				if sc.Cfg.NoFreelistSync {
					sc.MaxOps = n - 1 // quick: the sources without a persisted freelist one operation shallower
				}
			}
		}
		return scs
	}
	hx.Registry["c15-seeds"] = func(tier string) []*hx.Scope {
		// every seed state itself (one trivial commit on top), with every limit from 0 to total+1
		seeds := []string{"inline", "leaf", "twolevel", "threelevel", "overflow", "nested", "freeruns", "bigkeys", "oddnames"}
		cs := []apix.Cfg{{PageSize: 1024, Freelist: "array"}, {PageSize: 1024, Freelist: "array", NoFreelistSync: true}}
		if tier == "thorough" {
			cs = append(cs, apix.Cfg{PageSize: 4096, Freelist: "hashmap"}, apix.Cfg{PageSize: 4096, Freelist: "hashmap", NoFreelistSync: true})
		}
		exh := 4096
		if tier == "thorough" {
			exh = 20000
		}
		en := func(x *apix.Exec, t *hx.Track, left int) []apix.Op {
			switch {
			case x.W == nil && left >= 3:
				return []apix.Op{beginW}
			case x.W != nil && t.OpsInTx == 0 && left >= 2:
				return []apix.Op{{K: "seqnext", P: P("p")}, op("put", P("p"), "e", "e")}
			case x.W != nil:
				return []apix.Op{commit}
			}
			return nil
		}
		return mk("c15-seeds", seeds, cs, 3, 0, en, compactBoundary(exh))
	}
}

// seqNestedAlphabet: bucket creation to the given depth, empty and multi-page values, sequences at every level.
func seqNestedAlphabet(names []string, depth int) func(x *apix.Exec, t *hx.Track, left int) []apix.Op {
	return func(x *apix.Exec, t *hx.Track, left int) []apix.Op {
		if left <= 0 {
			return nil
		}
		if x.W == nil {
			if left < 2 {
				return nil
			}
			return []apix.Op{beginW}
		}
		if left == 1 {
			return []apix.Op{commit}
		}
		ops := []apix.Op{commit}
		all := append([][]string{nil}, bucketPaths(x, x.WM, names, depth)...)
		for _, bp := range all {
			if len(bp) < depth {
				for _, nm := range names {
					ops = append(ops, op("mkb", bp, nm, ""))
				}
			}
			if len(bp) > 0 {
				ops = append(ops, op("put", bp, "a", "e"), op("put", bp, "b", "X"), apix.Op{K: "seqset", P: bp, N: 5 + len(bp)})
			}
		}
		return ops
	}
}

// C15 runs the compaction check.
func C15(tier string) int {
	return RunHX(HXCheck{
		Prop: "C15", Level: "model_checking", Scopes: []string{"c15-seeds", "c15-nested"},
		Rule:        "source states: every seed state (inline, leaf, 2- and 3-level trees, overflow values, nested buckets, free runs) and every state reachable by the explicit-state exploration of nested-bucket programs (buckets to depth 3, empty and multi-page values, non-zero sequences at every level) within the bound; for each source state the file is copied and compacted into an empty destination for every transaction-size limit from 0 to total key+value bytes + 1 when that is within the stated ceiling, otherwise for every limit at which the split pattern can change (all sums of up to 12 consecutive item sizes -1/+0/+1), through bbolt.Compact and (every 3rd limit) through the real `bbolt compact` command; oracle: destination content incl. nesting and sequences equals the model, Tx.Check and page accounting clean, source SHA-256 unchanged, command exits 0",
		Assumptions: []string{"the CLI is run in-process through command.NewRootCommand()"},
		Quick:       100 * time.Second, Thorough: 10 * time.Minute,
		Cov: func(total *hx.Stats, cov map[string]interface{}) {
			cov["evaluations"] = total.Counters["compactions"]
			cov["distinct_nontrivial"] = total.Counters["compactions"]
		},
	}, tier)
}
