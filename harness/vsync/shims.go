package vsync

import (
	"cmp"
	"iter"
	"reflect"
	"sort"
	"sync"
)

// Mutex replaces sync.Mutex.
type Mutex struct {
	real  sync.Mutex
	held  bool
	owner *thread
}

func (m *Mutex) Lock() {
	s := S
	if s == nil {
		m.real.Lock()
		return
	}
	if s.aborting {
		return
	}
	s.point("lock")
	if m.held {
		s.block("mutex", func() bool { return !m.held })
	}
	m.held, m.owner = true, s.cur
}

func (m *Mutex) TryLock() bool {
	s := S
	if s == nil {
		return m.real.TryLock()
	}
	if s.aborting {
		return true
	}
	s.point("trylock")
	if m.held {
		return false
	}
	m.held, m.owner = true, s.cur
	return true
}

func (m *Mutex) Unlock() {
	s := S
	if s == nil {
		m.real.Unlock()
		return
	}
	if s.aborting {
		return
	}
	if !m.held {
		panic("sync: unlock of unlocked mutex")
	}
	m.held, m.owner = false, nil
	s.point("unlock")
}

// RWMutex replaces sync.RWMutex, including "a pending writer blocks new readers".
type RWMutex struct {
	real          sync.RWMutex
	writer        bool
	readers       int
	writerWaiting int
}

func (m *RWMutex) Lock() {
	s := S
	if s == nil {
		m.real.Lock()
		return
	}
	if s.aborting {
		return
	}
	s.point("wlock")
	if m.writer || m.readers > 0 {
		m.writerWaiting++
		s.block("rwmutex(write)", func() bool { return !m.writer && m.readers == 0 })
		m.writerWaiting--
	}
	m.writer = true
}

func (m *RWMutex) Unlock() {
	s := S
	if s == nil {
		m.real.Unlock()
		return
	}
	if s.aborting {
		return
	}
	if !m.writer {
		panic("sync: Unlock of unlocked RWMutex")
	}
	m.writer = false
	s.point("wunlock")
}

func (m *RWMutex) RLock() {
	s := S
	if s == nil {
		m.real.RLock()
		return
	}
	if s.aborting {
		return
	}
	s.point("rlock")
	if m.writer || m.writerWaiting > 0 {
		s.block("rwmutex(read)", func() bool { return !m.writer && m.writerWaiting == 0 })
	}
	m.readers++
}

func (m *RWMutex) RUnlock() {
	s := S
	if s == nil {
		m.real.RUnlock()
		return
	}
	if s.aborting {
		return
	}
	if m.readers <= 0 {
		panic("sync: RUnlock of unlocked RWMutex")
	}
	m.readers--
	s.point("runlock")
}

func (m *RWMutex) TryLock() bool {
	s := S
	if s == nil {
		return m.real.TryLock()
	}
	if m.writer || m.readers > 0 {
		return false
	}
	m.writer = true
	return true
}

func (m *RWMutex) TryRLock() bool {
	s := S
	if s == nil {
		return m.real.TryRLock()
	}
	if m.writer || m.writerWaiting > 0 {
		return false
	}
	m.readers++
	return true
}

// Once replaces sync.Once.
type Once struct {
	real    sync.Once
	done    bool
	running bool
}

func (o *Once) Do(f func()) {
	s := S
	if s == nil {
		o.real.Do(func() {
			defer func() { o.done = true }()
			f()
		})
		return
	}
	if s.aborting {
		return
	}
	s.point("once")
	if o.done {
		return
	}
	if o.running {
		s.block("once", func() bool { return o.done })
		return
	}
	o.running = true
	defer func() { o.done, o.running = true, false }()
	f()
}

// Pool replaces sync.Pool with a deterministic LIFO.
type Pool struct {
	New   func() any
	mu    sync.Mutex
	items []any
}

func (p *Pool) Get() any {
	p.mu.Lock()
	if n := len(p.items); n > 0 {
		x := p.items[n-1]
		p.items = p.items[:n-1]
		p.mu.Unlock()
		return x
	}
	p.mu.Unlock()
	if p.New != nil {
		return p.New()
	}
	return nil
}

func (p *Pool) Put(x any) {
	p.mu.Lock()
	if len(p.items) < 64 {
		p.items = append(p.items, x)
	}
	p.mu.Unlock()
}

// WaitGroup replaces sync.WaitGroup.
type WaitGroup struct {
	real sync.WaitGroup
	n    int
}

func (w *WaitGroup) Add(d int) {
	if S == nil {
		w.real.Add(d)
		return
	}
	w.n += d
}
func (w *WaitGroup) Done() { w.Add(-1) }
func (w *WaitGroup) Wait() {
	s := S
	if s == nil {
		w.real.Wait()
		return
	}
	if s.aborting {
		return
	}
	s.point("wgwait")
	s.block("waitgroup", func() bool { return w.n <= 0 })
}

// ---- channels ----

type chanState struct {
	keep     any // the channel itself: keeps its address from being reused while the entry exists
	buf      []any
	cap      int
	closed   bool
	taken    int // unbuffered: number of items handed to receivers
	recvWait int
}

var chans = map[uintptr]*chanState{}

func stateOf(ch any, c int) *chanState {
	p := reflect.ValueOf(ch).Pointer()
	st := chans[p]
	if st == nil {
		st = &chanState{cap: c, keep: ch}
		chans[p] = st
	}
	return st
}

// resetChans forgets emulated channel state (called when a session starts).
func resetChans() { chans = map[uintptr]*chanState{} }

// SCh / RCh wrap a channel so that the element type is inferred from the channel only.
type SCh[T any] struct{ ch chan<- T }
type RCh[T any] struct{ ch <-chan T }

func SendTo[T any](ch chan<- T) SCh[T]   { return SCh[T]{ch} }
func RecvFrom[T any](ch <-chan T) RCh[T] { return RCh[T]{ch} }

func (c SCh[T]) Send(v T) {
	s := S
	if s == nil {
		c.ch <- v
		return
	}
	if s.aborting {
		return
	}
	st := stateOf(c.ch, cap(c.ch))
	s.point("send")
	if st.closed {
		panic("send on closed channel")
	}
	if st.cap > 0 {
		if len(st.buf) >= st.cap {
			s.block("chan send", func() bool { return len(st.buf) < st.cap || st.closed })
		}
		st.buf = append(st.buf, v)
		return
	}
	// unbuffered: offer the item, then wait until a receiver has taken it
	st.buf = append(st.buf, v)
	mark := st.taken + len(st.buf)
	s.block("chan send", func() bool { return st.taken >= mark })
}

func (c SCh[T]) Close() {
	s := S
	if s == nil {
		close(c.ch)
		return
	}
	if s.aborting {
		return
	}
	st := stateOf(c.ch, cap(c.ch))
	if st.closed {
		panic("close of closed channel")
	}
	st.closed = true
	s.point("close")
}

func (c RCh[T]) Recv2() (T, bool) {
	s := S
	if s == nil {
		v, ok := <-c.ch
		return v, ok
	}
	var zero T
	if s.aborting {
		return zero, false
	}
	st := stateOf(c.ch, cap(c.ch))
	s.point("recv")
	if len(st.buf) == 0 && !st.closed {
		s.block("chan recv", func() bool { return len(st.buf) > 0 || st.closed })
	}
	if len(st.buf) > 0 {
		v := st.buf[0]
		st.buf = st.buf[1:]
		st.taken++
		if v == nil {
			return zero, true
		}
		return v.(T), true
	}
	return zero, false
}

func (c RCh[T]) Recv() T {
	v, _ := c.Recv2()
	return v
}

// Range iterates like `for v := range ch`.
func (c RCh[T]) Range() iter.Seq[T] {
	return func(yield func(T) bool) {
		for {
			v, ok := c.Recv2()
			if !ok {
				return
			}
			if !yield(v) {
				return
			}
		}
	}
}

// ---- map iteration ----

// RangeMap iterates a map in a controlled order: ascending keys by default; inside a session with MapOrder set
// the alternative orders (descending and every rotation; all permutations up to 3 keys) are choices.
// Keys are snapshotted first and yielded only if still present, which is a legal Go iteration order.
func RangeMap[M ~map[K]V, K cmp.Ordered, V any](m M) iter.Seq2[K, V] {
	return func(yield func(K, V) bool) {
		if len(m) == 0 {
			return
		}
		keys := make([]K, 0, len(m))
		for k := range m {
			keys = append(keys, k)
		}
		sort.Slice(keys, func(i, j int) bool { return keys[i] < keys[j] })
		if s := S; s != nil && s.MapOrder && len(keys) > 1 && !s.aborting {
			keys = permute(keys, Choose("map", numOrders(len(keys)), ""))
		}
		for _, k := range keys {
			v, ok := m[k]
			if !ok {
				continue
			}
			if !yield(k, v) {
				return
			}
		}
	}
}

func numOrders(n int) int {
	switch {
	case n <= 1:
		return 1
	case n == 2:
		return 2
	case n == 3:
		return 6
	default:
		return n + 1 // ascending, rotations 1..n-1, descending
	}
}

func permute[K any](keys []K, c int) []K {
	n := len(keys)
	if c == 0 {
		return keys
	}
	out := make([]K, 0, n)
	if n == 3 {
		perms := [6][3]int{{0, 1, 2}, {0, 2, 1}, {1, 0, 2}, {1, 2, 0}, {2, 0, 1}, {2, 1, 0}}
		for _, i := range perms[c] {
			out = append(out, keys[i])
		}
		return out
	}
	if n == 2 || c == n {
		for i := n - 1; i >= 0; i-- {
			out = append(out, keys[i])
		}
		return out
	}
	for i := 0; i < n; i++ {
		out = append(out, keys[(i+c)%n])
	}
	return out
}
