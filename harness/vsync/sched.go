// Package vsync is the controlled scheduler and the shims that replace sync primitives, go statements,
// channel operations and map iteration in the instrumented build of bbolt (see DESIGN.md 2.2/2.3).
//
// Outside a Session every shim passes through to the real primitive. Inside a Session exactly one logical
// thread runs at a time and every shim operation is a scheduling point decided by the session's chooser.
package vsync

import (
	"fmt"
	"runtime"
	"runtime/debug"
	"sync"
)

type thread struct {
	id      int
	name    string
	wake    chan struct{}
	pred    func() bool // non-nil while blocked: enabled iff pred()
	what    string      // what it is blocked on (for deadlock reports)
	done    bool
	started bool
	sleepTo int64 // >0: sleeping until virtual time
}

// Point is one scheduling/choice point of an execution.
type Point struct {
	Kind    string // "sched", "map", "io", "time", ...
	N       int    // number of alternatives
	Chosen  int
	Cost    []int // deviation cost of each alternative
	Running int   // id of the running thread (-1 none)
	Desc    string
}

// Session is one controlled execution.
type Session struct {
	threads  []*thread
	cur      *thread
	Points   []Point
	prefix   []int
	now      int64
	timers   []*Timer
	Steps    int
	MaxSteps int
	Horizon  int64 // virtual nanoseconds
	aborting bool
	Verdict  string // "" ok, "deadlock", "horizon", "steplimit", "replay-divergence"
	Detail   string
	done     chan struct{}
	wg       sync.WaitGroup
	MapOrder bool // enumerate map iteration orders as choices
	// DelayBound: every non-default choice costs one deviation, including the choice among enabled threads when
	// the running thread blocks or ends (delay-bounded scheduling); otherwise those forced switches are free
	// (preemption bounding).
	DelayBound bool
	Log      []string
	Trace    bool
	nextTID  int
	// OnPoint, if set, is consulted for choices beyond the prefix (default: 0).
	OnPoint func(p *Point) int
}

// S is the active session (nil: pass-through mode).
var S *Session

type goexit struct{}

// NewSession creates a session that replays prefix and then takes choice 0.
func NewSession(prefix []int) *Session {
	return &Session{prefix: prefix, MaxSteps: 200000, Horizon: 20e9, done: make(chan struct{})}
}

// Run executes main as logical thread 0 and returns when every thread has finished or the execution was aborted.
func (s *Session) Run(main func()) {
	if S != nil {
		panic("vsync: nested session")
	}
	S = s
	resetChans()
	t := s.newThread("main", main)
	s.cur = t
	t.started = true
	t.wake <- struct{}{}
	<-s.done
	s.wg.Wait()
	S = nil
}

func (s *Session) newThread(name string, f func()) *thread {
	t := &thread{id: s.nextTID, name: name, wake: make(chan struct{}, 1)}
	s.nextTID++
	s.threads = append(s.threads, t)
	s.wg.Add(1)
	go func() {
		defer s.wg.Done()
		debug.SetPanicOnFault(true)
		<-t.wake
		if s.aborting {
			return
		}
		defer func() {
			r := recover()
			if r != nil {
				if _, ok := r.(goexit); !ok {
					// a panic escaping a logical thread: record and abort the execution
					if s.Verdict == "" {
						s.Verdict = "panic"
						s.Detail = fmt.Sprintf("thread %s: %v", t.name, r)
					}
					s.abort()
				}
			}
			t.done = true
			if s.aborting {
				return
			}
			s.cur = nil
			s.switchFrom(nil)
		}()
		f()
	}()
	return t
}

func (t *thread) enabled(s *Session) bool {
	if t.done {
		return false
	}
	if t.sleepTo > 0 {
		return s.now >= t.sleepTo
	}
	return t.pred == nil || t.pred()
}

// abort ends the execution: every parked thread is released and exits.
func (s *Session) abort() {
	if s.aborting {
		return
	}
	s.aborting = true
	for _, t := range s.threads {
		if !t.done && t != s.cur {
			select {
			case t.wake <- struct{}{}:
			default:
			}
		}
	}
	close(s.done)
}

// exitIfAborting terminates the calling logical thread when the execution is being aborted.
func (s *Session) exitIfAborting() {
	if s.aborting {
		runtime.Goexit()
	}
}

var _ = goexit{}

type option struct {
	t     *thread
	timer *Timer
	sleep *thread
	cost  int
}

// decide picks the next thread to run. self is the calling thread (nil if it just finished); selfEnabled
// says whether it could continue.
func (s *Session) decide(self *thread, selfEnabled bool) *thread {
	for {
		var opts []option
		if self != nil && selfEnabled {
			opts = append(opts, option{t: self})
		}
		for _, t := range s.threads {
			if t == self || t.done || t.sleepTo > 0 {
				continue
			}
			if t.enabled(s) {
				c := 0
				if self != nil && selfEnabled {
					c = 1 // preemption of a runnable thread
				} else if s.DelayBound && len(opts) > 0 {
					c = 1 // delay bounding: a forced switch to anything but the first enabled thread is a deviation too
				}
				opts = append(opts, option{t: t, cost: c})
			}
		}
		real := len(opts)
		// time may pass: earliest sleeper / timer first
		var evs []option
		for _, t := range s.threads {
			if !t.done && t.sleepTo > 0 {
				evs = append(evs, option{sleep: t})
			}
		}
		for _, tm := range s.timers {
			if !tm.fired && !tm.stopped {
				evs = append(evs, option{timer: tm})
			}
		}
		// order events by time (stable)
		for i := 1; i < len(evs); i++ {
			for j := i; j > 0 && evAt(evs[j]) < evAt(evs[j-1]); j-- {
				evs[j], evs[j-1] = evs[j-1], evs[j]
			}
		}
		for i, e := range evs {
			if real > 0 || i > 0 {
				e.cost = 1 // time passing while a thread could run, or a later event overtaking an earlier one
			}
			opts = append(opts, e)
		}
		if len(opts) == 0 {
			return nil
		}
		idx := 0
		if len(opts) > 1 {
			costs := make([]int, len(opts))
			for i, o := range opts {
				costs[i] = o.cost
			}
			run := -1
			if self != nil {
				run = self.id
			}
			idx = s.choose("sched", costs, run, "")
		}
		o := opts[idx]
		switch {
		case o.t != nil:
			return o.t
		case o.sleep != nil:
			if o.sleep.sleepTo > s.now {
				s.now = o.sleep.sleepTo
			}
			o.sleep.sleepTo = 0
			if s.now > s.Horizon {
				s.Verdict, s.Detail = "horizon", "virtual time horizon reached"
				return nil
			}
			return o.sleep
		case o.timer != nil:
			tm := o.timer
			if tm.at > s.now {
				s.now = tm.at
			}
			tm.fired = true
			if s.now > s.Horizon {
				s.Verdict, s.Detail = "horizon", "virtual time horizon reached"
				return nil
			}
			return s.newThread("timer", tm.f)
		}
	}
}

func evAt(o option) int64 {
	if o.sleep != nil {
		return o.sleep.sleepTo
	}
	return o.timer.at
}

// choose records a choice point. costs[i] is the deviation cost of alternative i.
func (s *Session) choose(kind string, costs []int, running int, desc string) int {
	i := len(s.Points)
	c := 0
	if i < len(s.prefix) {
		c = s.prefix[i]
		if c >= len(costs) {
			s.Verdict = "replay-divergence"
			s.Detail = fmt.Sprintf("choice %d at point %d (%s) out of range %d", c, i, kind, len(costs))
			c = 0
		}
	} else if s.OnPoint != nil {
		p := Point{Kind: kind, N: len(costs), Cost: costs, Running: running, Desc: desc}
		c = s.OnPoint(&p)
	}
	s.Points = append(s.Points, Point{Kind: kind, N: len(costs), Chosen: c, Cost: costs, Running: running, Desc: desc})
	return c
}

// Choose is a harness-level choice among n alternatives; alternative 0 is the default, the others cost 1 deviation.
func Choose(kind string, n int, desc string) int {
	s := S
	if s == nil || n <= 1 {
		return 0
	}
	costs := make([]int, n)
	for i := 1; i < n; i++ {
		costs[i] = 1
	}
	run := -1
	if s.cur != nil {
		run = s.cur.id
	}
	return s.choose(kind, costs, run, desc)
}

// switchFrom hands control to the next thread. self == nil: the caller finished. Otherwise the caller parks
// until it is chosen again.
func (s *Session) switchFrom(self *thread) {
	selfEnabled := self != nil && self.enabled(s)
	next := s.decide(self, selfEnabled)
	if s.Verdict == "horizon" || s.Verdict == "replay-divergence" {
		s.abort()
		if self != nil {
			runtime.Goexit()
		}
		return
	}
	if next == nil {
		// nobody can run
		alive := 0
		var desc string
		for _, t := range s.threads {
			if !t.done {
				alive++
				desc += fmt.Sprintf("[%s blocked on %s] ", t.name, t.what)
			}
		}
		if alive > 0 {
			s.Verdict, s.Detail = "deadlock", desc
		}
		s.abort()
		if self != nil {
			runtime.Goexit()
		}
		return
	}
	if next == self {
		return
	}
	s.cur = next
	next.started = true
	next.wake <- struct{}{}
	if self != nil {
		<-self.wake
		s.exitIfAborting()
	}
}

// point is a scheduling point of the running thread.
func (s *Session) point(kind string) {
	if s.aborting {
		return
	}
	s.Steps++
	if s.Steps > s.MaxSteps {
		s.Verdict, s.Detail = "steplimit", "step limit reached"
		s.abort()
		runtime.Goexit()
	}
	s.switchFrom(s.cur)
}

// block parks the running thread until pred holds.
func (s *Session) block(what string, pred func() bool) {
	if s.aborting {
		return
	}
	if pred() {
		return
	}
	t := s.cur
	t.pred, t.what = pred, what
	s.switchFrom(t)
	t.pred, t.what = nil, ""
}

// Yield is an explicit scheduling point for harness code.
func Yield() {
	if s := S; s != nil {
		s.point("yield")
	}
}

// Go starts f as a new logical thread (a real goroutine outside a session).
func Go(f func()) {
	s := S
	if s == nil {
		go func() {
			// a fault on the (possibly damaged) mapping becomes a panic the code under test can recover
			debug.SetPanicOnFault(true)
			// A panic escaping a goroutine of the code under test would kill the process. The harness keeps the
			// worker alive instead and records it: callers must treat a non-empty TakeGoPanic() as a process crash.
			defer func() {
				if r := recover(); r != nil {
					goPanicMu.Lock()
					goPanic = fmt.Sprintf("%v", r)
					goPanicMu.Unlock()
				}
			}()
			f()
		}()
		return
	}
	if s.aborting {
		return
	}
	s.newThread(fmt.Sprintf("go%d", s.nextTID), f)
	s.point("go")
}

var (
	goPanicMu sync.Mutex
	goPanic   string
)

// TakeGoPanic returns (and clears) the panic that escaped a goroutine started by the code under test in
// pass-through mode; "" if none. In a real process such a panic is a crash.
func TakeGoPanic() string {
	goPanicMu.Lock()
	defer goPanicMu.Unlock()
	p := goPanic
	goPanic = ""
	return p
}

// GoNamed is Go with a thread name for reports; it returns after the scheduling point.
func GoNamed(name string, f func()) {
	s := S
	if s == nil {
		go f()
		return
	}
	s.newThread(name, f)
	s.point("go")
}

// Active reports whether a session is running.
func Active() bool { return S != nil }

// Now returns the virtual time in nanoseconds.
func (s *Session) Now() int64 { return s.now }

// Timer is the virtual counterpart of time.Timer created by AfterFunc.
type Timer struct {
	at      int64
	f       func()
	fired   bool
	stopped bool
	real    interface{ Stop() bool }
}

// AfterFuncVirtual registers f to run at now+d (in a session).
func AfterFuncVirtual(d int64, f func()) *Timer {
	s := S
	tm := &Timer{at: s.now + d, f: f}
	s.timers = append(s.timers, tm)
	return tm
}

// NewRealTimer wraps a real timer (pass-through mode).
func NewRealTimer(r interface{ Stop() bool }) *Timer { return &Timer{real: r} }

// Stop prevents the timer from firing.
func (t *Timer) Stop() bool {
	if t.real != nil {
		return t.real.Stop()
	}
	if t.fired || t.stopped {
		return false
	}
	t.stopped = true
	return true
}

// SleepVirtual blocks the running thread for d virtual nanoseconds.
func SleepVirtual(d int64) {
	s := S
	if s.aborting {
		return
	}
	t := s.cur
	t.sleepTo = s.now + d
	if t.sleepTo <= s.now {
		t.sleepTo = s.now + 1
	}
	t.what = "sleep"
	s.switchFrom(t)
	t.sleepTo = 0
}

// Join blocks until every other logical thread has finished (harness helper).
func Join() {
	s := S
	if s == nil {
		return
	}
	me := s.cur
	s.block("join", func() bool {
		for _, t := range s.threads {
			if t != me && !t.done {
				return false
			}
		}
		for _, tm := range s.timers {
			if !tm.fired && !tm.stopped {
				return false
			}
		}
		return true
	})
}

var _ = runtime.Gosched
