// Package vtime replaces package time in the instrumented build: real time outside a session, virtual time inside.
package vtime

import (
	"time"

	"go.etcd.io/bbolt/zverif/vsync"
)

type (
	Duration = time.Duration
	Time     = time.Time
	Month    = time.Month
	Timer    = vsync.Timer
)

const (
	Nanosecond  = time.Nanosecond
	Microsecond = time.Microsecond
	Millisecond = time.Millisecond
	Second      = time.Second
	Minute      = time.Minute
	Hour        = time.Hour
)

var epoch = time.Date(2026, 1, 1, 0, 0, 0, 0, time.UTC)

func Now() Time {
	if s := vsync.S; s != nil {
		return epoch.Add(time.Duration(s.Now()))
	}
	return time.Now()
}

func Since(t Time) Duration { return Now().Sub(t) }

func Sleep(d Duration) {
	if vsync.S != nil {
		vsync.SleepVirtual(int64(d))
		return
	}
	time.Sleep(d)
}

func AfterFunc(d Duration, f func()) *Timer {
	if vsync.S != nil {
		return vsync.AfterFuncVirtual(int64(d), f)
	}
	return vsync.NewRealTimer(time.AfterFunc(d, f))
}
