package boltfmt

import (
	"fmt"
	"sort"
)

// Mutation is one single structural corruption of a consistent file.
type Mutation struct {
	Class string // leak | free-reachable | double-ref | dup-free | bad-type | key-order
	Desc  string
	Img   []byte
}

func clone(b []byte) []byte { return append([]byte{}, b...) }

// writeFreelist rewrites the freelist page (head at id) with the given ids; false if they do not fit.
func writeFreelist(img []byte, ps int, id uint64, ids []uint64) bool {
	b := img[id*uint64(ps):]
	overflow := le.Uint32(b[12:])
	span := (int(overflow) + 1) * ps
	if len(ids) >= 0xFFFF || PageHdr+len(ids)*8 > span {
		return false
	}
	le.PutUint16(b[10:], uint16(len(ids)))
	for i, f := range ids {
		le.PutUint64(b[PageHdr+i*8:], f)
	}
	return true
}

// swapElems swaps elements i and i+1 of a branch or leaf page, keeping each pointing at its own key/value bytes.
func swapElems(img []byte, ps int, page uint64, i int) {
	b := img[page*uint64(ps):]
	flags := le.Uint16(b[8:])
	a := PageHdr + i*ElemSize
	c := a + ElemSize
	var ea, ec [ElemSize]byte
	copy(ea[:], b[a:a+ElemSize])
	copy(ec[:], b[c:c+ElemSize])
	posOff := 0 // branch: pos at offset 0; leaf: pos at offset 4
	if flags == FlagLeaf {
		posOff = 4
	}
	// element formerly at slot i+1 moves 16 bytes down: its relative position grows by 16, and vice versa
	le.PutUint32(ec[posOff:], le.Uint32(ec[posOff:])+ElemSize)
	le.PutUint32(ea[posOff:], le.Uint32(ea[posOff:])-ElemSize)
	copy(b[a:], ec[:])
	copy(b[c:], ea[:])
}

// deleteElem removes element i of a branch or leaf page.
func deleteElem(img []byte, ps int, page uint64, i int) {
	b := img[page*uint64(ps):]
	flags := le.Uint16(b[8:])
	count := int(le.Uint16(b[10:]))
	posOff := 0
	if flags == FlagLeaf {
		posOff = 4
	}
	for j := i + 1; j < count; j++ {
		src := PageHdr + j*ElemSize
		dst := src - ElemSize
		var e [ElemSize]byte
		copy(e[:], b[src:src+ElemSize])
		le.PutUint32(e[posOff:], le.Uint32(e[posOff:])+ElemSize)
		copy(b[dst:], e[:])
	}
	le.PutUint16(b[10:], uint16(count-1))
}

// Mutations enumerates every single structural corruption of each class at every eligible place of the
// consistent state st of image data.
func Mutations(data []byte, st *State, emit func(m Mutation) bool) {
	ps := st.PageSize
	var pages []*PageInfo
	for _, p := range st.Pages {
		pages = append(pages, p)
	}
	sort.Slice(pages, func(i, j int) bool { return pages[i].ID < pages[j].ID })
	var referenced []uint64 // every page id referenced from a branch element or a bucket entry, plus the root
	referenced = append(referenced, st.Meta.Root)
	for _, p := range pages {
		referenced = append(referenced, p.Children...)
		referenced = append(referenced, p.BucketRoots...)
	}
	persisted := st.Meta.Freelist != NoFreelist
	// --- leak: remove each listed id from the freelist ---
	if persisted {
		for i, f := range st.FreeIDs {
			img := clone(data)
			ids := append(append([]uint64{}, st.FreeIDs[:i]...), st.FreeIDs[i+1:]...)
			if writeFreelist(img, ps, st.Meta.Freelist, ids) {
				if !emit(Mutation{"leak", fmt.Sprintf("free id %d removed from the freelist page", f), img}) {
					return
				}
			}
		}
		// --- leak: detach each subtree (branch element / bucket entry removed) ---
		for _, p := range pages {
			if p.Kind == UseBranch && p.Count >= 2 {
				for i := 0; i < p.Count; i++ {
					img := clone(data)
					deleteElem(img, ps, p.ID, i)
					if !emit(Mutation{"leak", fmt.Sprintf("branch page %d: element %d (child %d) removed", p.ID, i, p.Children[i]), img}) {
						return
					}
				}
			}
			for k, ei := range p.BucketElems {
				img := clone(data)
				deleteElem(img, ps, p.ID, ei)
				if !emit(Mutation{"leak", fmt.Sprintf("leaf page %d: bucket entry %d (root %d) removed", p.ID, ei, p.BucketRoots[k]), img}) {
					return
				}
			}
		}
		// --- reachable and free: add each reachable page id and each overflow id to the freelist ---
		for _, p := range pages {
			for k := uint64(0); k <= uint64(p.Overflow); k++ {
				id := p.ID + k
				ids := append([]uint64{}, st.FreeIDs...)
				ids = append(ids, id)
				sort.Slice(ids, func(i, j int) bool { return ids[i] < ids[j] })
				img := clone(data)
				if writeFreelist(img, ps, st.Meta.Freelist, ids) {
					what := "head"
					if k > 0 {
						what = fmt.Sprintf("overflow %d", k)
					}
					if !emit(Mutation{"free-reachable", fmt.Sprintf("reachable page %d (%s of %s page %d) added to the freelist", id, what, p.Kind, p.ID), img}) {
						return
					}
				}
			}
		}
		// --- freed twice: duplicate each id ---
		for i, f := range st.FreeIDs {
			ids := append([]uint64{}, st.FreeIDs[:i+1]...)
			ids = append(ids, f)
			ids = append(ids, st.FreeIDs[i+1:]...)
			img := clone(data)
			if writeFreelist(img, ps, st.Meta.Freelist, ids) {
				if !emit(Mutation{"dup-free", fmt.Sprintf("free id %d listed twice", f), img}) {
					return
				}
			}
		}
		// --- freed twice, the second occurrence away from the first (a damaged list need not be sorted): at the end and at the start ---
		for i, f := range st.FreeIDs {
			if i != len(st.FreeIDs)-1 {
				ids := append(append([]uint64{}, st.FreeIDs...), f)
				img := clone(data)
				if writeFreelist(img, ps, st.Meta.Freelist, ids) {
					if !emit(Mutation{"dup-free", fmt.Sprintf("free id %d listed again at the end of the list", f), img}) {
						return
					}
				}
			}
			if i != 0 {
				ids := append([]uint64{f}, st.FreeIDs...)
				img := clone(data)
				if writeFreelist(img, ps, st.Meta.Freelist, ids) {
					if !emit(Mutation{"dup-free", fmt.Sprintf("free id %d listed again at the start of the list", f), img}) {
						return
					}
				}
			}
		}
		// --- reachable and free, listed out of order: each reachable page id appended after the last free id ---
		for _, p := range pages {
			for k := uint64(0); k <= uint64(p.Overflow); k++ {
				id := p.ID + k
				if n := len(st.FreeIDs); n == 0 || st.FreeIDs[n-1] < id {
					continue // the sorted variant above already is this list
				}
				ids := append(append([]uint64{}, st.FreeIDs...), id)
				img := clone(data)
				if writeFreelist(img, ps, st.Meta.Freelist, ids) {
					if !emit(Mutation{"free-reachable", fmt.Sprintf("reachable page %d (of %s page %d) appended to the end of the freelist", id, p.Kind, p.ID), img}) {
						return
					}
				}
			}
		}
	}
	// --- double reference through an extent: the overflow count of each reachable page raised by one, so that its extent
	// swallows the page behind it - another reachable page (head or overflow: referenced twice) or a free page (reachable
	// and free); which of the two is walked first depends on where the pages sit in the tree, so every page is tried ---
	for _, p := range pages {
		next := p.ID + uint64(p.Overflow) + 1
		if next >= st.Meta.Pgid {
			continue
		}
		class := ""
		switch st.Use[next] {
		case UseBranch, UseLeaf, UseOverflow:
			class = "double-ref"
		case UseFree:
			if persisted {
				class = "free-reachable"
			}
		}
		if class == "" {
			continue
		}
		img := clone(data)
		le.PutUint32(img[p.ID*uint64(ps)+12:], p.Overflow+1)
		if !emit(Mutation{class, fmt.Sprintf("%s page %d: overflow count %d -> %d (its extent now covers page %d, in use as %q)", p.Kind, p.ID, p.Overflow, p.Overflow+1, next, st.Use[next]), img}) {
			return
		}
	}
	// --- double reference: point each branch element / bucket root at each other referenced page ---
	for _, p := range pages {
		if p.Kind == UseBranch {
			for i, child := range p.Children {
				for _, other := range referenced {
					if other == child || other == p.ID {
						continue
					}
					img := clone(data)
					le.PutUint64(img[p.ID*uint64(ps)+uint64(PageHdr+i*ElemSize+8):], other)
					if !emit(Mutation{"double-ref", fmt.Sprintf("branch page %d element %d: child %d -> %d", p.ID, i, child, other), img}) {
						return
					}
				}
			}
		}
		for k, ei := range p.BucketElems {
			for _, other := range referenced {
				if other == p.BucketRoots[k] || other == p.ID {
					continue
				}
				img := clone(data)
				b := img[p.ID*uint64(ps):]
				eo := PageHdr + ei*ElemSize
				pos := int(le.Uint32(b[eo+4:]))
				ks := int(le.Uint32(b[eo+8:]))
				le.PutUint64(b[eo+pos+ks:], other)
				if !emit(Mutation{"double-ref", fmt.Sprintf("leaf page %d bucket entry %d: root %d -> %d", p.ID, ei, p.BucketRoots[k], other), img}) {
					return
				}
			}
		}
	}
	// --- invalid type: every non-tree flag value on each reachable page ---
	for _, p := range pages {
		for _, fl := range []uint16{0x00, 0x03, 0x04, 0x08, 0x10, 0x20, 0xFFFF} {
			img := clone(data)
			le.PutUint16(img[p.ID*uint64(ps)+8:], fl)
			if !emit(Mutation{"bad-type", fmt.Sprintf("%s page %d: flags := %#x", p.Kind, p.ID, fl), img}) {
				return
			}
		}
	}
	// --- key order: swap each adjacent pair; break the relation to the parent ---
	for _, p := range pages {
		for i := 0; i+1 < p.Count; i++ {
			img := clone(data)
			swapElems(img, ps, p.ID, i)
			if !emit(Mutation{"key-order", fmt.Sprintf("%s page %d: elements %d and %d swapped", p.Kind, p.ID, i, i+1), img}) {
				return
			}
		}
		if p.Kind == UseBranch {
			for i := 1; i < p.Count; i++ {
				// make the first key of child i smaller than the branch key that leads to it
				child := st.Pages[p.Children[i]]
				if child == nil || child.Count == 0 {
					continue
				}
				img := clone(data)
				b := img[child.ID*uint64(ps):]
				posOff := 0
				if child.Kind == UseLeaf {
					posOff = 4
				}
				pos := int(le.Uint32(b[PageHdr+posOff:]))
				ksOff := 4
				if child.Kind == UseLeaf {
					ksOff = 8
				}
				ks := int(le.Uint32(b[PageHdr+ksOff:]))
				if ks == 0 || b[PageHdr+pos] == 0 {
					continue
				}
				b[PageHdr+pos] = 0
				if !emit(Mutation{"key-order", fmt.Sprintf("%s page %d: first key made smaller than its key in parent branch page %d", child.Kind, child.ID, p.ID), img}) {
					return
				}
				// the subtle variant: raise the separator in the parent to the child's second key, so that the child's
				// first key is below its separator but still above everything in the left sibling
				if child.Count >= 2 {
					cb := data[child.ID*uint64(ps):]
					e1 := PageHdr + ElemSize
					pos1 := int(le.Uint32(cb[e1+posOff:]))
					ks1 := int(le.Uint32(cb[e1+ksOff:]))
					pb := clone(data)
					pp := pb[p.ID*uint64(ps):]
					peo := PageHdr + i*ElemSize
					ppos := int(le.Uint32(pp[peo:]))
					pks := int(le.Uint32(pp[peo+4:]))
					if ks1 == pks && ks1 > 0 {
						copy(pp[peo+ppos:peo+ppos+pks], cb[e1+pos1:e1+pos1+ks1])
						if !emit(Mutation{"key-order", fmt.Sprintf("branch page %d: separator %d raised to the second key of its child %d", p.ID, i, child.ID), pb}) {
							return
						}
					}
				}
			}
		}
	}
}

// HasClass reports whether the decoding found a problem of the class (classes are grouped the way the
// integrity check words them).
func (s *State) HasClass(class string) bool {
	for _, p := range s.Problems {
		switch class {
		case "leak":
			if p.Class == "leak" {
				return true
			}
		case "free-reachable":
			if p.Class == "free-reachable" || p.Class == "double-ref" && false {
				return true
			}
		case "double-ref":
			if p.Class == "double-ref" {
				return true
			}
		case "dup-free":
			if p.Class == "dup-free" {
				return true
			}
		case "bad-type":
			if p.Class == "bad-type" {
				return true
			}
		case "key-order":
			if p.Class == "key-order" {
				return true
			}
		}
	}
	return false
}
