// Package boltfmt is an independent decoder of the bbolt version-2 file format.
// It imports nothing from bbolt and uses explicit little-endian offsets only.
package boltfmt

import (
	"bytes"
	"encoding/binary"
	"fmt"
	"sort"
)

const (
	Magic       = 0xED0CDAED
	Version     = 2
	NoFreelist  = ^uint64(0)
	FlagBranch  = 0x01
	FlagLeaf    = 0x02
	FlagMeta    = 0x04
	FlagFree    = 0x10
	BucketLeaf  = 0x01
	PageHdr     = 16
	ElemSize    = 16
	MetaSize    = 64 // bytes of the meta structure incl. checksum
	MetaSumLen  = 56 // bytes covered by the checksum
	BucketHdr   = 16
	MaxKeySize  = 32768
	fnvOffset64 = 14695981039346656037
	fnvPrime64  = 1099511628211
)

var le = binary.LittleEndian

// FNV1a64 is an own implementation of FNV-1a 64.
func FNV1a64(b []byte) uint64 {
	h := uint64(fnvOffset64)
	for _, c := range b {
		h ^= uint64(c)
		h *= fnvPrime64
	}
	return h
}

// Meta is a decoded meta page.
type Meta struct {
	Slot     int
	PageID   uint64
	PFlags   uint16
	Magic    uint32
	Version  uint32
	PageSize uint32
	Flags    uint32
	Root     uint64
	RootSeq  uint64
	Freelist uint64
	Pgid     uint64 // high-water mark
	Txid     uint64
	Checksum uint64
	Valid    bool
	Why      string
}

// ParseMeta decodes the meta found in a page (b starts at the page header).
func ParseMeta(b []byte, slot int) Meta {
	m := Meta{Slot: slot}
	if len(b) < PageHdr+MetaSize {
		m.Why = "short"
		return m
	}
	m.PageID = le.Uint64(b[0:])
	m.PFlags = le.Uint16(b[8:])
	o := b[PageHdr:]
	m.Magic = le.Uint32(o[0:])
	m.Version = le.Uint32(o[4:])
	m.PageSize = le.Uint32(o[8:])
	m.Flags = le.Uint32(o[12:])
	m.Root = le.Uint64(o[16:])
	m.RootSeq = le.Uint64(o[24:])
	m.Freelist = le.Uint64(o[32:])
	m.Pgid = le.Uint64(o[40:])
	m.Txid = le.Uint64(o[48:])
	m.Checksum = le.Uint64(o[56:])
	switch {
	case m.Magic != Magic:
		m.Why = "magic"
	case m.Version != Version:
		m.Why = "version"
	case m.Checksum != FNV1a64(o[:MetaSumLen]):
		m.Why = "checksum"
	default:
		m.Valid = true
	}
	return m
}

// EncodeMeta writes the 64-byte meta structure (with fresh checksum) at b[16:].
func EncodeMeta(b []byte, m Meta) {
	le.PutUint64(b[0:], m.PageID)
	le.PutUint16(b[8:], FlagMeta)
	o := b[PageHdr:]
	le.PutUint32(o[0:], m.Magic)
	le.PutUint32(o[4:], m.Version)
	le.PutUint32(o[8:], m.PageSize)
	le.PutUint32(o[12:], m.Flags)
	le.PutUint64(o[16:], m.Root)
	le.PutUint64(o[24:], m.RootSeq)
	le.PutUint64(o[32:], m.Freelist)
	le.PutUint64(o[40:], m.Pgid)
	le.PutUint64(o[48:], m.Txid)
	le.PutUint64(o[56:], FNV1a64(o[:MetaSumLen]))
}

// Image is a file image with its metas decoded.
type Image struct {
	Data     []byte
	PageSize int
	Metas    [2]Meta
}

// DetectPageSize mimics what any reader of the format must do: take the page
// size from a valid meta 0, else probe for a valid meta 1 at every power of two.
func DetectPageSize(data []byte) (int, bool) {
	if m := ParseMeta(data, 0); m.Valid {
		return int(m.PageSize), true
	}
	for ps := 1024; ps <= 1024<<14; ps <<= 1 {
		if ps+PageHdr+MetaSize > len(data) {
			break
		}
		if m := ParseMeta(data[ps:], 1); m.Valid && int(m.PageSize) == ps {
			return ps, true
		}
	}
	return 0, false
}

// Load decodes both metas. pageSize 0 means detect.
func Load(data []byte, pageSize int) (*Image, error) {
	if pageSize == 0 {
		ps, ok := DetectPageSize(data)
		if !ok {
			return nil, fmt.Errorf("no valid meta page found")
		}
		pageSize = ps
	}
	im := &Image{Data: data, PageSize: pageSize}
	im.Metas[0] = ParseMeta(data, 0)
	if len(data) >= pageSize {
		im.Metas[1] = ParseMeta(data[pageSize:], 1)
	} else {
		im.Metas[1] = Meta{Slot: 1, Why: "short"}
	}
	return im, nil
}

// Winner returns the valid meta with the highest txid, or nil.
func (im *Image) Winner() *Meta {
	var w *Meta
	for i := range im.Metas {
		m := &im.Metas[i]
		if m.Valid && (w == nil || m.Txid > w.Txid) {
			w = m
		}
	}
	return w
}

// KV is one element of a decoded bucket, in file order.
type KV struct {
	Key []byte
	Val []byte  // nil for a nested bucket
	Sub *Bucket // non-nil for a nested bucket
}

// Bucket is a decoded bucket.
type Bucket struct {
	Seq    uint64
	Root   uint64 // 0 = inline
	Items  []KV
	Inline bool
}

// Problem is one structural violation found while decoding.
type Problem struct {
	Class string // leak, double-ref, free-reachable, dup-free, bad-type, key-order, bounds, free-range, short-file, bad-id
	Page  uint64
	Msg   string
}

func (p Problem) String() string { return fmt.Sprintf("%s page=%d %s", p.Class, p.Page, p.Msg) }

// Page use kinds.
const (
	UseNone     = ""
	UseMeta     = "meta"
	UseFreelist = "freelist"
	UseBranch   = "branch"
	UseLeaf     = "leaf"
	UseOverflow = "overflow"
	UseFree     = "free"
)

// PageInfo describes one reachable tree page (head page of a possibly multi-page allocation).
type PageInfo struct {
	ID       uint64
	Kind     string // branch | leaf
	Count    int
	Overflow uint32
	Children []uint64 // branch: child page ids, in element order
	// leaf: index of each element that is a (non-inline) bucket entry and the root page it points to
	BucketElems []int
	BucketRoots []uint64
	// InlineBucketElems: indices of leaf elements holding an inline bucket
	InlineBucketElems []int
	Depth             int
}

// State is the full decoding of the database state a meta describes.
type State struct {
	Pages     map[uint64]*PageInfo
	Meta      Meta
	PageSize  int
	Root      *Bucket
	Use       []string // per page id below hwm
	Refs      []int    // number of tree references per page id (heads only)
	FreeIDs   []uint64 // ids listed in the freelist page, as stored
	FLPages   []uint64 // pages occupied by the freelist (head + overflow)
	TreePages []uint64 // pages of the bucket tree incl. overflow (sorted)
	Problems  []Problem
	Depth     int
	NLeaf     int
	NBranch   int
	NOverflow int
	NInline   int
}

func (s *State) prob(class string, pg uint64, f string, a ...interface{}) {
	if len(s.Problems) < 64 {
		s.Problems = append(s.Problems, Problem{class, pg, fmt.Sprintf(f, a...)})
	}
}

// PageSet returns the pages making up this state: tree, overflow and freelist pages.
func (s *State) PageSet() []uint64 {
	r := append([]uint64{}, s.TreePages...)
	r = append(r, s.FLPages...)
	sort.Slice(r, func(i, j int) bool { return r[i] < r[j] })
	return r
}

// Decode walks the state described by meta m.
func (im *Image) Decode(m *Meta) *State {
	s := &State{Meta: *m, PageSize: im.PageSize, Pages: map[uint64]*PageInfo{}}
	ps := uint64(im.PageSize)
	hwm := m.Pgid
	if hwm > uint64(len(im.Data))/ps+1<<20 { // absurd
		s.prob("bounds", 0, "high-water mark %d absurd for file of %d bytes", hwm, len(im.Data))
		return s
	}
	if uint64(len(im.Data)) < hwm*ps {
		s.prob("short-file", 0, "file has %d bytes, high-water mark needs %d", len(im.Data), hwm*ps)
	}
	s.Use = make([]string, hwm)
	s.Refs = make([]int, hwm)
	if hwm >= 2 {
		s.Use[0], s.Use[1] = UseMeta, UseMeta
	}
	d := &decoder{im: im, s: s, hwm: hwm}
	// tree
	s.Root = &Bucket{Seq: m.RootSeq, Root: m.Root}
	if m.Root >= hwm || m.Root < 2 {
		s.prob("bounds", m.Root, "root bucket page out of range [2,%d)", hwm)
	} else {
		s.Root.Items = d.walk(m.Root, nil, nil, 1)
	}
	// freelist
	if m.Freelist != NoFreelist {
		if m.Freelist >= hwm || m.Freelist < 2 {
			s.prob("bounds", m.Freelist, "freelist page out of range [2,%d)", hwm)
		} else {
			d.freelist(m.Freelist)
		}
	}
	for id := uint64(2); id < hwm; id++ {
		if s.Use[id] == UseNone {
			if m.Freelist == NoFreelist {
				s.Use[id] = UseFree // implicit
			} else {
				s.prob("leak", id, "neither reachable nor listed free")
			}
		}
	}
	for id := uint64(0); id < hwm; id++ {
		switch s.Use[id] {
		case UseBranch, UseLeaf, UseOverflow:
			s.TreePages = append(s.TreePages, id)
		}
	}
	return s
}

type decoder struct {
	im      *Image
	s       *State
	hwm     uint64
	curLeaf *PageInfo
}

func (d *decoder) page(id uint64) []byte {
	ps := uint64(d.im.PageSize)
	if (id+1)*ps > uint64(len(d.im.Data)) {
		return nil
	}
	return d.im.Data[id*ps:]
}

// claim marks page id (and overflow) as used by the tree. Returns false if already used.
func (d *decoder) claim(id uint64, use string, overflow uint32) bool {
	s := d.s
	ok := true
	for k := uint64(0); k <= uint64(overflow); k++ {
		p := id + k
		if p >= d.hwm {
			s.prob("bounds", id, "page %d (overflow %d of %d) at or above high-water mark %d", p, k, id, d.hwm)
			return false
		}
		if s.Use[p] != UseNone {
			s.prob("double-ref", p, "already used as %s, now claimed as %s of %d", s.Use[p], use, id)
			ok = false
			continue
		}
		if k == 0 {
			s.Use[p] = use
		} else {
			s.Use[p] = UseOverflow
			s.NOverflow++
		}
	}
	return ok
}

// walk decodes the subtree rooted at page id; lo (inclusive) and hi (exclusive) are the key bounds from ancestors.
func (d *decoder) walk(id uint64, lo, hi []byte, depth int) []KV {
	s := d.s
	if depth > s.Depth {
		s.Depth = depth
	}
	if depth > 64 {
		s.prob("bounds", id, "tree deeper than 64")
		return nil
	}
	b := d.page(id)
	if b == nil {
		s.prob("short-file", id, "page beyond end of file")
		return nil
	}
	pid := le.Uint64(b[0:])
	flags := le.Uint16(b[8:])
	count := int(le.Uint16(b[10:]))
	overflow := le.Uint32(b[12:])
	s.Refs[id]++
	if s.Refs[id] > 1 {
		s.prob("double-ref", id, "referenced %d times", s.Refs[id])
		return nil
	}
	if pid != id {
		s.prob("bad-id", id, "header id %d", pid)
	}
	var use string
	switch flags {
	case FlagBranch:
		use = UseBranch
		s.NBranch++
	case FlagLeaf:
		use = UseLeaf
		s.NLeaf++
	default:
		s.prob("bad-type", id, "flags %#x in tree", flags)
		d.claim(id, "unknown", 0)
		return nil
	}
	if !d.claim(id, use, overflow) {
		return nil
	}
	span := (uint64(overflow) + 1) * uint64(d.im.PageSize)
	if uint64(len(b)) < span {
		s.prob("short-file", id, "page span beyond end of file")
		return nil
	}
	b = b[:span]
	pi := &PageInfo{ID: id, Kind: use, Count: count, Overflow: overflow, Depth: depth}
	s.Pages[id] = pi
	if flags == FlagLeaf {
		d.curLeaf = pi
		r := d.leaf(b, id, count, lo, hi, depth)
		return r
	}
	if count == 0 {
		s.prob("bounds", id, "branch page with zero elements")
		return nil
	}
	if PageHdr+count*ElemSize > len(b) {
		s.prob("bounds", id, "element array outside page")
		return nil
	}
	var out []KV
	var keys [][]byte
	var kids []uint64
	for i := 0; i < count; i++ {
		eo := PageHdr + i*ElemSize
		pos := int(le.Uint32(b[eo:]))
		ks := int(le.Uint32(b[eo+4:]))
		kid := le.Uint64(b[eo+8:])
		if eo+pos+ks > len(b) || pos < 0 || ks < 0 {
			s.prob("bounds", id, "branch element %d key outside page", i)
			return out
		}
		keys = append(keys, b[eo+pos:eo+pos+ks])
		kids = append(kids, kid)
		pi.Children = append(pi.Children, kid)
	}
	for i := range keys {
		if i > 0 && bytes.Compare(keys[i-1], keys[i]) >= 0 {
			s.prob("key-order", id, "branch key %d not greater than key %d", i, i-1)
		}
	}
	if lo != nil && bytes.Compare(keys[0], lo) < 0 {
		s.prob("key-order", id, "first branch key below ancestor key")
	}
	if hi != nil && bytes.Compare(keys[len(keys)-1], hi) >= 0 {
		s.prob("key-order", id, "last branch key not below next ancestor key")
	}
	for i := range keys {
		var h []byte
		if i+1 < len(keys) {
			h = keys[i+1]
		} else {
			h = hi
		}
		if kids[i] < 2 || kids[i] >= d.hwm {
			s.prob("bounds", id, "branch element %d points to page %d outside [2,%d)", i, kids[i], d.hwm)
			continue
		}
		out = append(out, d.walk(kids[i], keys[i], h, depth+1)...)
	}
	return out
}

func (d *decoder) leaf(b []byte, id uint64, count int, lo, hi []byte, depth int) []KV {
	s := d.s
	me := d.curLeaf
	d.curLeaf = nil // nested calls (inline buckets, sub-trees) must not record into this page
	if PageHdr+count*ElemSize > len(b) {
		s.prob("bounds", id, "element array outside page")
		return nil
	}
	var out []KV
	var prev []byte
	for i := 0; i < count; i++ {
		eo := PageHdr + i*ElemSize
		fl := le.Uint32(b[eo:])
		pos := int(le.Uint32(b[eo+4:]))
		ks := int(le.Uint32(b[eo+8:]))
		vs := int(le.Uint32(b[eo+12:]))
		if pos < 0 || ks < 0 || vs < 0 || eo+pos+ks+vs > len(b) {
			s.prob("bounds", id, "leaf element %d outside page", i)
			return out
		}
		k := b[eo+pos : eo+pos+ks]
		v := b[eo+pos+ks : eo+pos+ks+vs]
		if i > 0 && bytes.Compare(prev, k) >= 0 {
			s.prob("key-order", id, "leaf key %d not greater than key %d", i, i-1)
		}
		if i == 0 && lo != nil && bytes.Compare(k, lo) < 0 {
			s.prob("key-order", id, "first leaf key below ancestor key")
		}
		if hi != nil && bytes.Compare(k, hi) >= 0 {
			s.prob("key-order", id, "leaf key %d not below next ancestor key", i)
		}
		prev = k
		kv := KV{Key: append([]byte{}, k...)}
		if fl&BucketLeaf != 0 {
			if len(v) < BucketHdr {
				s.prob("bounds", id, "bucket value shorter than header")
				continue
			}
			sub := &Bucket{Root: le.Uint64(v[0:]), Seq: le.Uint64(v[8:])}
			if me != nil {
				if sub.Root == 0 {
					me.InlineBucketElems = append(me.InlineBucketElems, i)
				} else {
					me.BucketElems = append(me.BucketElems, i)
					me.BucketRoots = append(me.BucketRoots, sub.Root)
				}
			}
			if sub.Root == 0 {
				sub.Inline = true
				s.NInline++
				ip := v[BucketHdr:]
				if len(ip) < PageHdr {
					s.prob("bounds", id, "inline bucket without page header")
				} else {
					ifl := le.Uint16(ip[8:])
					icnt := int(le.Uint16(ip[10:]))
					if ifl != FlagLeaf {
						s.prob("bad-type", id, "inline bucket page flags %#x", ifl)
					} else {
						sub.Items = d.leaf(ip, id, icnt, nil, nil, depth+1)
					}
				}
			} else if sub.Root < 2 || sub.Root >= d.hwm {
				s.prob("bounds", id, "bucket root %d outside [2,%d)", sub.Root, d.hwm)
			} else {
				sub.Items = d.walk(sub.Root, nil, nil, depth+1)
			}
			kv.Sub = sub
		} else {
			kv.Val = append([]byte{}, v...)
		}
		out = append(out, kv)
	}
	return out
}

func (d *decoder) freelist(id uint64) {
	s := d.s
	b := d.page(id)
	if b == nil {
		s.prob("short-file", id, "freelist page beyond end of file")
		return
	}
	pid := le.Uint64(b[0:])
	flags := le.Uint16(b[8:])
	count := int(le.Uint16(b[10:]))
	overflow := le.Uint32(b[12:])
	if pid != id {
		s.prob("bad-id", id, "freelist header id %d", pid)
	}
	if flags != FlagFree {
		s.prob("bad-type", id, "freelist page flags %#x", flags)
		return
	}
	for k := uint64(0); k <= uint64(overflow); k++ {
		p := id + k
		if p >= d.hwm {
			s.prob("bounds", id, "freelist page %d above high-water mark", p)
			return
		}
		if s.Use[p] != UseNone {
			s.prob("double-ref", p, "freelist page also used as %s", s.Use[p])
		}
		s.Use[p] = UseFreelist
		s.FLPages = append(s.FLPages, p)
	}
	span := (uint64(overflow) + 1) * uint64(d.im.PageSize)
	if uint64(len(b)) < span {
		s.prob("short-file", id, "freelist span beyond end of file")
		return
	}
	b = b[:span]
	idx := 0
	if count == 0xFFFF {
		if len(b) < PageHdr+8 {
			s.prob("bounds", id, "freelist count word outside page")
			return
		}
		count = int(le.Uint64(b[PageHdr:]))
		idx = 1
	}
	if PageHdr+(idx+count)*8 > len(b) {
		s.prob("bounds", id, "freelist ids outside page span (count %d)", count)
		return
	}
	var prev uint64
	for i := 0; i < count; i++ {
		f := le.Uint64(b[PageHdr+(idx+i)*8:])
		s.FreeIDs = append(s.FreeIDs, f)
		if i > 0 && f <= prev {
			if f == prev {
				s.prob("dup-free", f, "listed twice")
				continue
			}
			s.prob("free-order", f, "free ids not ascending")
		}
		prev = f
		if f < 2 || f >= d.hwm {
			s.prob("free-range", f, "free id outside [2,%d)", d.hwm)
			continue
		}
		switch s.Use[f] {
		case UseNone:
			s.Use[f] = UseFree
		case UseFree:
			s.prob("dup-free", f, "listed twice")
		default:
			s.prob("free-reachable", f, "listed free but in use as %s", s.Use[f])
		}
	}
}

// FreeSet returns the set of ids the state regards as free (listed, or implicit when not persisted).
func (s *State) FreeSet() []uint64 {
	var r []uint64
	for id, u := range s.Use {
		if u == UseFree {
			r = append(r, uint64(id))
		}
	}
	return r
}
