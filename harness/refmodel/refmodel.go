// Package refmodel is the reference model: a tree of byte-string keyed maps, each with a counter.
// It is deliberately boring. Errors follow the documented API contract (DESIGN.md appendix A).
package refmodel

import (
	"errors"
	"fmt"
	"sort"
	"strings"
)

// Documented errors, by name (compared by name with bbolt's errors).
var (
	ErrTxClosed           = errors.New("ErrTxClosed")
	ErrTxNotWritable      = errors.New("ErrTxNotWritable")
	ErrBucketNameRequired = errors.New("ErrBucketNameRequired")
	ErrBucketExists       = errors.New("ErrBucketExists")
	ErrBucketNotFound     = errors.New("ErrBucketNotFound")
	ErrIncompatibleValue  = errors.New("ErrIncompatibleValue")
	ErrKeyRequired        = errors.New("ErrKeyRequired")
	ErrKeyTooLarge        = errors.New("ErrKeyTooLarge")
	ErrValueTooLarge      = errors.New("ErrValueTooLarge")
	ErrSameBuckets        = errors.New("ErrSameBuckets")
	ErrDatabaseReadOnly   = errors.New("ErrDatabaseReadOnly")
	ErrDatabaseNotOpen    = errors.New("ErrDatabaseNotOpen")
)

const (
	MaxKeySize   = 32768
	MaxValueSize = (1 << 31) - 2
)

// Ent is a plain value or a nested bucket.
type Ent struct {
	Val []byte
	Sub *Node
}

// Node is a bucket.
type Node struct {
	Seq uint64
	Ent map[string]*Ent
}

func New() *Node { return &Node{Ent: map[string]*Ent{}} }

func (n *Node) Clone() *Node {
	c := &Node{Seq: n.Seq, Ent: make(map[string]*Ent, len(n.Ent))}
	for k, e := range n.Ent {
		if e.Sub != nil {
			c.Ent[k] = &Ent{Sub: e.Sub.Clone()}
		} else {
			c.Ent[k] = &Ent{Val: append([]byte{}, e.Val...)}
		}
	}
	return c
}

// Keys returns the keys in ascending byte order.
func (n *Node) Keys() []string {
	ks := make([]string, 0, len(n.Ent))
	for k := range n.Ent {
		ks = append(ks, k)
	}
	sort.Strings(ks)
	return ks
}

// Resolve follows a bucket path; nil if some component is missing or not a bucket.
func (n *Node) Resolve(path []string) *Node {
	cur := n
	for _, p := range path {
		e := cur.Ent[p]
		if e == nil || e.Sub == nil {
			return nil
		}
		cur = e.Sub
	}
	return cur
}

// Contains reports whether x is n or a descendant of n.
func (n *Node) Contains(x *Node) bool {
	if n == x {
		return true
	}
	for _, e := range n.Ent {
		if e.Sub != nil && e.Sub.Contains(x) {
			return true
		}
	}
	return false
}

func short(b string) string {
	if len(b) <= 12 {
		return fmt.Sprintf("%q", b)
	}
	return fmt.Sprintf("%q..[%d]", b[:8], len(b))
}

// Canon is a canonical text form (for comparison and hashing). Long strings are abbreviated by length+hash.
func (n *Node) Canon() string {
	var sb strings.Builder
	n.canon(&sb)
	return sb.String()
}

func (n *Node) canon(sb *strings.Builder) {
	fmt.Fprintf(sb, "{#%d", n.Seq)
	for _, k := range n.Keys() {
		e := n.Ent[k]
		sb.WriteByte(' ')
		sb.WriteString(abbr(k))
		if e.Sub != nil {
			sb.WriteByte(':')
			e.Sub.canon(sb)
		} else {
			sb.WriteByte('=')
			sb.WriteString(abbr(string(e.Val)))
		}
	}
	sb.WriteByte('}')
}

func abbr(s string) string {
	if len(s) <= 16 {
		return fmt.Sprintf("%q", s)
	}
	h := uint64(14695981039346656037)
	for i := 0; i < len(s); i++ {
		h ^= uint64(s[i])
		h *= 1099511628211
	}
	return fmt.Sprintf("%q+%d@%x", s[:6], len(s), h)
}

// Equal compares two trees exactly.
func Equal(a, b *Node) bool { return Diff(a, b, "") == "" }

// Diff returns a description of the first difference, or "".
func Diff(a, b *Node, path string) string {
	if a == nil || b == nil {
		if a == b {
			return ""
		}
		return fmt.Sprintf("%s: one side missing", path)
	}
	if a.Seq != b.Seq {
		return fmt.Sprintf("%s: sequence %d vs %d", path, a.Seq, b.Seq)
	}
	ka, kb := a.Keys(), b.Keys()
	i, j := 0, 0
	for i < len(ka) || j < len(kb) {
		switch {
		case j >= len(kb) || (i < len(ka) && ka[i] < kb[j]):
			return fmt.Sprintf("%s: key %s only on left", path, short(ka[i]))
		case i >= len(ka) || kb[j] < ka[i]:
			return fmt.Sprintf("%s: key %s only on right", path, short(kb[j]))
		}
		ea, eb := a.Ent[ka[i]], b.Ent[kb[j]]
		if (ea.Sub == nil) != (eb.Sub == nil) {
			return fmt.Sprintf("%s: key %s bucket on one side, value on the other", path, short(ka[i]))
		}
		if ea.Sub != nil {
			if d := Diff(ea.Sub, eb.Sub, path+"/"+ka[i]); d != "" {
				return d
			}
		} else if string(ea.Val) != string(eb.Val) {
			return fmt.Sprintf("%s: key %s value %s vs %s", path, short(ka[i]), short(string(ea.Val)), short(string(eb.Val)))
		}
		i++
		j++
	}
	return ""
}

// ---- operations with documented error behaviour (tx-closed / writability are the caller's business) ----

func (n *Node) CreateBucket(k string) (*Node, error) {
	if len(k) == 0 {
		return nil, ErrBucketNameRequired
	}
	if e := n.Ent[k]; e != nil {
		if e.Sub != nil {
			return nil, ErrBucketExists
		}
		return nil, ErrIncompatibleValue
	}
	c := New()
	n.Ent[k] = &Ent{Sub: c}
	return c, nil
}

func (n *Node) CreateBucketIfNotExists(k string) (*Node, error) {
	if len(k) == 0 {
		return nil, ErrBucketNameRequired
	}
	if e := n.Ent[k]; e != nil {
		if e.Sub != nil {
			return e.Sub, nil
		}
		return nil, ErrIncompatibleValue
	}
	c := New()
	n.Ent[k] = &Ent{Sub: c}
	return c, nil
}

func (n *Node) DeleteBucket(k string) error {
	e := n.Ent[k]
	if e == nil {
		return ErrBucketNotFound
	}
	if e.Sub == nil {
		return ErrIncompatibleValue
	}
	delete(n.Ent, k)
	return nil
}

// MoveBucket moves n[k] into dst.
func (n *Node) MoveBucket(k string, dst *Node) error {
	e := n.Ent[k]
	if e == nil {
		return ErrBucketNotFound
	}
	if e.Sub == nil {
		return ErrIncompatibleValue
	}
	if n == dst {
		return ErrSameBuckets
	}
	if d := dst.Ent[k]; d != nil {
		if d.Sub != nil {
			return ErrBucketExists
		}
		return ErrIncompatibleValue
	}
	delete(n.Ent, k)
	dst.Ent[k] = e
	return nil
}

func (n *Node) Put(k string, v []byte) error {
	if len(k) == 0 {
		return ErrKeyRequired
	}
	if len(k) > MaxKeySize {
		return ErrKeyTooLarge
	}
	if int64(len(v)) > MaxValueSize {
		return ErrValueTooLarge
	}
	if e := n.Ent[k]; e != nil && e.Sub != nil {
		return ErrIncompatibleValue
	}
	n.Ent[k] = &Ent{Val: append([]byte{}, v...)}
	return nil
}

func (n *Node) Delete(k string) error {
	e := n.Ent[k]
	if e == nil {
		return nil
	}
	if e.Sub != nil {
		return ErrIncompatibleValue
	}
	delete(n.Ent, k)
	return nil
}

// Get returns nil for an absent key or a bucket.
func (n *Node) Get(k string) []byte {
	e := n.Ent[k]
	if e == nil || e.Sub != nil {
		return nil
	}
	return e.Val
}

// ---- cursor ----

// Cursor is a sorted list with a position: -1 unset, 0..n-1, n = past the end.
type Cursor struct {
	N    *Node
	keys []string
	pos  int
}

func (n *Node) Cursor() *Cursor { return &Cursor{N: n, keys: n.Keys(), pos: -1} }

func (c *Cursor) at() (string, *Ent, bool) {
	if c.pos < 0 || c.pos >= len(c.keys) {
		return "", nil, false
	}
	k := c.keys[c.pos]
	return k, c.N.Ent[k], true
}

func (c *Cursor) First() (string, *Ent, bool) {
	c.pos = 0
	if len(c.keys) == 0 {
		c.pos = -1
	}
	return c.at()
}

func (c *Cursor) Last() (string, *Ent, bool) {
	c.pos = len(c.keys) - 1
	return c.at()
}

func (c *Cursor) Next() (string, *Ent, bool) {
	if c.pos < 0 || c.pos >= len(c.keys)-1 {
		// unset, on the last key, or past the end: nil, position unchanged
		return "", nil, false
	}
	c.pos++
	return c.at()
}

func (c *Cursor) Prev() (string, *Ent, bool) {
	if c.pos <= 0 {
		return "", nil, false
	}
	c.pos--
	return c.at()
}

func (c *Cursor) Seek(s string) (string, *Ent, bool) {
	c.pos = sort.SearchStrings(c.keys, s)
	if len(c.keys) == 0 {
		c.pos = -1
	}
	return c.at()
}

func (c *Cursor) Pos() int { return c.pos }
