// Package par runs jobs in worker subprocesses of the same binary. A worker that dies or stops answering is
// reported for the job it was on and replaced.
package par

import (
	"bufio"
	"encoding/binary"
	"fmt"
	"io"
	"os"
	"os/exec"
	"runtime"
	"runtime/debug"
	"sync"
	"time"
)

// Result of one job.
type Result struct {
	Idx    int
	Out    []byte
	Died   bool // worker crashed on this job
	Hung   bool // worker exceeded the per-job deadline on this job
	Stderr string
}

func writeFrame(w io.Writer, b []byte) error {
	var h [4]byte
	binary.LittleEndian.PutUint32(h[:], uint32(len(b)))
	if _, err := w.Write(h[:]); err != nil {
		return err
	}
	_, err := w.Write(b)
	return err
}

func readFrame(r io.Reader) ([]byte, error) {
	var h [4]byte
	if _, err := io.ReadFull(r, h[:]); err != nil {
		return nil, err
	}
	b := make([]byte, binary.LittleEndian.Uint32(h[:]))
	_, err := io.ReadFull(r, b)
	return b, err
}

// Serve is the worker side: read jobs from stdin, answer on stdout.
func Serve(handle func(job []byte) []byte) {
	debug.SetPanicOnFault(true)
	in := bufio.NewReaderSize(os.Stdin, 1<<20)
	out := bufio.NewWriterSize(os.Stdout, 1<<20)
	// code under test that prints to os.Stdout (the CLI run in-process) must not corrupt the frame stream
	if dn, err := os.OpenFile(os.DevNull, os.O_WRONLY, 0); err == nil {
		os.Stdout = dn
	}
	for {
		job, err := readFrame(in)
		if err != nil {
			return
		}
		res := handle(job)
		if err := writeFrame(out, res); err != nil {
			return
		}
		out.Flush()
	}
}

type worker struct {
	cmd  *exec.Cmd
	in   io.WriteCloser
	out  *bufio.Reader
	errb *tailBuf
}

type tailBuf struct {
	mu sync.Mutex
	b  []byte
}

func (t *tailBuf) Write(p []byte) (int, error) {
	t.mu.Lock()
	t.b = append(t.b, p...)
	if len(t.b) > 8192 {
		t.b = t.b[len(t.b)-8192:]
	}
	t.mu.Unlock()
	return len(p), nil
}
func (t *tailBuf) String() string { t.mu.Lock(); defer t.mu.Unlock(); return string(t.b) }

// Pool is a set of worker subprocesses.
type Pool struct {
	N        int
	Args     []string
	Env      []string
	Timeout  time.Duration // per job
	Restarts int
	// Deadline: jobs not yet started when it passes are skipped (counted in Skipped).
	Deadline time.Time
	Skipped  int
	mu       sync.Mutex
	idle     []*worker
}

func (p *Pool) get() *worker {
	p.mu.Lock()
	defer p.mu.Unlock()
	if n := len(p.idle); n > 0 {
		w := p.idle[n-1]
		p.idle = p.idle[:n-1]
		return w
	}
	return nil
}

func (p *Pool) put(w *worker) {
	p.mu.Lock()
	p.idle = append(p.idle, w)
	p.mu.Unlock()
}

// Close kills all idle workers.
func (p *Pool) Close() {
	p.mu.Lock()
	defer p.mu.Unlock()
	for _, w := range p.idle {
		w.kill()
	}
	p.idle = nil
}

// NewPool makes a pool of n workers started as os.Args[0] args...
func NewPool(n int, args ...string) *Pool {
	if n <= 0 {
		n = runtime.NumCPU()
	}
	return &Pool{N: n, Args: args, Timeout: 300 * time.Second}
}

func (p *Pool) spawn() (*worker, error) {
	cmd := exec.Command(os.Args[0], p.Args...)
	cmd.Env = append(os.Environ(), "GOMAXPROCS=1", "VERIF_WORKER=1")
	cmd.Env = append(cmd.Env, p.Env...)
	in, err := cmd.StdinPipe()
	if err != nil {
		return nil, err
	}
	out, err := cmd.StdoutPipe()
	if err != nil {
		return nil, err
	}
	tb := &tailBuf{}
	cmd.Stderr = tb
	if err := cmd.Start(); err != nil {
		return nil, err
	}
	return &worker{cmd: cmd, in: in, out: bufio.NewReaderSize(out, 1<<20), errb: tb}, nil
}

func (w *worker) kill() {
	_ = w.in.Close()
	_ = w.cmd.Process.Kill()
	_ = w.cmd.Wait()
}

// Run executes all jobs and calls handle (serialised) for each result, in completion order.
func (p *Pool) Run(jobs [][]byte, handle func(Result)) error {
	ch := make(chan int, len(jobs))
	for i := range jobs {
		ch <- i
	}
	close(ch)
	var hmu sync.Mutex
	var wg sync.WaitGroup
	var firstErr error
	n := p.N
	if n > len(jobs) {
		n = len(jobs)
	}
	for k := 0; k < n; k++ {
		wg.Add(1)
		go func() {
			defer wg.Done()
			w := p.get()
			defer func() {
				if w != nil {
					p.put(w)
				}
			}()
			for idx := range ch {
				if !p.Deadline.IsZero() && time.Now().After(p.Deadline) {
					p.mu.Lock()
					p.Skipped++
					p.mu.Unlock()
					continue
				}
				if w == nil {
					var err error
					w, err = p.spawn()
					if err != nil {
						hmu.Lock()
						firstErr = err
						hmu.Unlock()
						return
					}
				}
				res := Result{Idx: idx}
				done := make(chan struct{})
				var out []byte
				var rerr error
				go func(w *worker) {
					defer close(done)
					if err := writeFrame(w.in, jobs[idx]); err != nil {
						rerr = err
						return
					}
					out, rerr = readFrame(w.out)
				}(w)
				select {
				case <-done:
					if rerr != nil {
						res.Died = true
						time.Sleep(20 * time.Millisecond)
						res.Stderr = w.errb.String()
						w.kill()
						w = nil
						p.mu.Lock()
						p.Restarts++
						p.mu.Unlock()
					} else {
						res.Out = out
					}
				case <-time.After(p.Timeout):
					res.Hung = true
					res.Stderr = w.errb.String()
					w.kill()
					<-done
					w = nil
					p.mu.Lock()
					p.Restarts++
					p.mu.Unlock()
				}
				hmu.Lock()
				handle(res)
				hmu.Unlock()
			}
		}()
	}
	wg.Wait()
	if firstErr != nil {
		return fmt.Errorf("par: %v", firstErr)
	}
	return nil
}
