// Package mc is the stateless explorer: depth-first search over the choice points of controlled executions
// (thread schedules, timer firings, map orders, injected I/O faults) with iterative deviation bounding.
package mc

import (
	"encoding/json"
	"fmt"
	"sort"
	"time"

	"go.etcd.io/bbolt/zverif/par"
	"go.etcd.io/bbolt/zverif/vsync"
)

// Outcome is what one execution of a driver reports.
type Outcome struct {
	Obs  string // canonical observation (for counting distinct outcomes)
	Fail string // non-empty: the oracle rejected this execution
	Note string // known-finding predicate that held in this execution ("" none)
}

// Driver runs one execution inside the session (it is logical thread 0) and returns its outcome.
type Driver func(s *vsync.Session) Outcome

// Registry maps driver names to constructors (param selects a variant).
var Registry = map[string]func(param string) Driver{}

// Exec is one finished execution.
type Exec struct {
	Choices []int
	Points  []vsync.Point
	Verdict string
	Detail  string
	Out     Outcome
}

// RunOnce executes the driver with the given choice prefix (default choices afterwards).
func RunOnce(d Driver, prefix []int, mapOrder, delay bool) *Exec {
	s := vsync.NewSession(prefix)
	s.MapOrder = mapOrder
	s.DelayBound = delay
	var out Outcome
	s.Run(func() { out = d(s) })
	e := &Exec{Points: s.Points, Verdict: s.Verdict, Detail: s.Detail, Out: out}
	for _, p := range s.Points {
		e.Choices = append(e.Choices, p.Chosen)
	}
	return e
}

// Violation is a failing execution.
type Violation struct {
	Driver  string `json:"driver"`
	Param   string `json:"param"`
	Choices []int  `json:"choices"`
	Verdict string `json:"verdict"`
	Msg     string `json:"msg"`
	Note    string `json:"note,omitempty"`
	Devs    int    `json:"deviations"`
}

// Job is one unit of exploration for a worker.
type Job struct {
	Driver   string `json:"driver"`
	Param    string `json:"param"`
	Prefix   []int  `json:"prefix"`
	Bound    int    `json:"bound"`
	Expand   bool   `json:"expand"` // only run this node and return its children
	MapOrder bool   `json:"map_order"`
	Delay    bool   `json:"delay_bound"`
	MaxExec  int    `json:"max_exec"`
	Replay   bool   `json:"replay"`   // run exactly this choice list once
	Deadline int64  `json:"deadline"` // unix seconds; 0 none
}

// Res is a worker's answer.
type Res struct {
	Execs     int            `json:"execs"`
	Children  [][]int        `json:"children,omitempty"`
	Viol      []Violation    `json:"viol,omitempty"`
	Outcomes  map[string]int `json:"outcomes"`
	Verdicts  map[string]int `json:"verdicts"`
	MaxPoints int            `json:"max_points"`
	Points    int            `json:"points"`
	Capped    bool           `json:"capped"`
	Err       string         `json:"err,omitempty"`
	Sample    string         `json:"sample,omitempty"`
}

type explorer struct {
	d   Driver
	job Job
	res *Res
}

func (e *explorer) visit(prefix []int) (children [][]int) {
	x := RunOnce(e.d, prefix, e.job.MapOrder, e.job.Delay)
	e.res.Execs++
	e.res.Points += len(x.Points)
	if len(x.Points) > e.res.MaxPoints {
		e.res.MaxPoints = len(x.Points)
	}
	if x.Verdict == "replay-divergence" {
		e.res.Err = "replay divergence (nondeterminism not owned): " + x.Detail
		return nil
	}
	v := x.Verdict
	if v == "" {
		v = "ok"
	}
	e.res.Verdicts[v]++
	devs := 0
	for _, p := range x.Points {
		devs += p.Cost[p.Chosen]
	}
	msg := ""
	switch {
	case x.Out.Fail != "":
		msg = x.Out.Fail
	case x.Verdict == "deadlock" || x.Verdict == "panic" || x.Verdict == "steplimit" || x.Verdict == "horizon":
		msg = x.Verdict + ": " + x.Detail
	}
	if msg != "" {
		if len(e.res.Viol) < 20 {
			e.res.Viol = append(e.res.Viol, Violation{Driver: e.job.Driver, Param: e.job.Param, Choices: x.Choices, Verdict: v, Msg: msg, Note: x.Out.Note, Devs: devs})
		}
	} else {
		if len(e.res.Outcomes) < 4096 {
			e.res.Outcomes[x.Out.Obs]++
		}
	}
	if e.res.Sample == "" && len(x.Choices) > 0 {
		e.res.Sample = fmt.Sprintf("choices=%v obs=%s", trim(x.Choices), x.Out.Obs)
	}
	cost := 0
	for i, p := range x.Points {
		if i >= len(prefix) {
			for alt := 1; alt < p.N; alt++ {
				if cost+p.Cost[alt] <= e.job.Bound {
					c := append(append([]int{}, x.Choices[:i]...), alt)
					children = append(children, c)
				}
			}
		}
		cost += p.Cost[p.Chosen]
	}
	return children
}

func trim(c []int) []int {
	n := len(c)
	for n > 0 && c[n-1] == 0 {
		n--
	}
	return c[:n]
}

func (e *explorer) dfs(prefix []int) {
	if e.res.Err != "" {
		return
	}
	if e.job.MaxExec > 0 && e.res.Execs >= e.job.MaxExec {
		e.res.Capped = true
		return
	}
	if e.job.Deadline > 0 && e.res.Execs%64 == 0 && time.Now().Unix() > e.job.Deadline {
		e.res.Capped = true
		return
	}
	for _, c := range e.visit(prefix) {
		e.dfs(c)
	}
}

// Work runs one job.
func Work(job Job) Res {
	res := Res{Outcomes: map[string]int{}, Verdicts: map[string]int{}}
	mk := Registry[job.Driver]
	if mk == nil {
		res.Err = "unknown driver " + job.Driver
		return res
	}
	e := &explorer{d: mk(job.Param), job: job, res: &res}
	switch {
	case job.Replay:
		x := RunOnce(e.d, job.Prefix, job.MapOrder, job.Delay)
		res.Execs = 1
		msg := x.Out.Fail
		if msg == "" && x.Verdict != "" {
			msg = x.Verdict + ": " + x.Detail
		}
		if msg != "" {
			res.Viol = append(res.Viol, Violation{Driver: job.Driver, Param: job.Param, Choices: x.Choices, Verdict: x.Verdict, Msg: msg, Note: x.Out.Note})
		}
		res.Sample = x.Out.Obs
	case job.Expand:
		res.Children = e.visit(job.Prefix)
	default:
		e.dfs(job.Prefix)
	}
	return res
}

// Serve is the worker loop.
func Serve() {
	par.Serve(func(b []byte) []byte {
		var j Job
		if err := json.Unmarshal(b, &j); err != nil {
			out, _ := json.Marshal(Res{Err: err.Error()})
			return out
		}
		r := Work(j)
		out, _ := json.Marshal(r)
		return out
	})
}

// Total aggregates an exploration.
type Total struct {
	Execs      int
	Points     int
	MaxPoints  int
	Outcomes   map[string]int
	Verdicts   map[string]int
	Viol       []Violation
	Errs       []string
	Exhaustive bool
	Capped     string
	Samples    []string
	Bound      int
}

func (t *Total) add(r *Res) {
	t.Execs += r.Execs
	t.Points += r.Points
	if r.MaxPoints > t.MaxPoints {
		t.MaxPoints = r.MaxPoints
	}
	for k, v := range r.Outcomes {
		t.Outcomes[k] += v
	}
	for k, v := range r.Verdicts {
		t.Verdicts[k] += v
	}
	if len(t.Viol) < 50 {
		t.Viol = append(t.Viol, r.Viol...)
	}
	if r.Err != "" {
		t.Errs = append(t.Errs, r.Err)
	}
	if r.Capped {
		t.Exhaustive = false
	}
	if r.Sample != "" && len(t.Samples) < 4 {
		t.Samples = append(t.Samples, r.Sample)
	}
}

// Explore explores all executions of driver/param with at most bound deviations, sharded over the pool.
func Explore(pool *par.Pool, driver, param string, bound int, mapOrder, delay bool, deadline time.Time) *Total {
	t := &Total{Outcomes: map[string]int{}, Verdicts: map[string]int{}, Exhaustive: true, Bound: bound}
	frontier := [][]int{nil}
	target := pool.N * 6
	// expand level by level until there is enough to shard
	for len(frontier) > 0 && len(frontier) < target {
		if time.Now().After(deadline) {
			t.Exhaustive = false
			t.Capped = "deadline during sharding"
			return t
		}
		jobs := make([][]byte, len(frontier))
		for i, p := range frontier {
			jobs[i], _ = json.Marshal(Job{Driver: driver, Param: param, Prefix: p, Bound: bound, Expand: true, MapOrder: mapOrder, Delay: delay})
		}
		results := make([]*Res, len(frontier))
		_ = pool.Run(jobs, func(r par.Result) {
			if r.Died || r.Hung {
				t.Errs = append(t.Errs, fmt.Sprintf("worker died/hung on prefix %v: %s", frontier[r.Idx], r.Stderr))
				return
			}
			var res Res
			if err := json.Unmarshal(r.Out, &res); err == nil {
				results[r.Idx] = &res
			}
		})
		var next [][]int
		for _, r := range results {
			if r == nil {
				continue
			}
			t.add(r)
			next = append(next, r.Children...)
		}
		frontier = next
		if len(t.Viol) > 0 || len(t.Errs) > 0 {
			return t
		}
	}
	if len(frontier) == 0 {
		return t
	}
	left := time.Until(deadline)
	// rough per-job execution cap derived from the time left (reported as a cap when hit)
	jobs := make([][]byte, len(frontier))
	for i, p := range frontier {
		jobs[i], _ = json.Marshal(Job{Driver: driver, Param: param, Prefix: p, Bound: bound, MapOrder: mapOrder, Delay: delay, Deadline: deadline.Unix()})
	}
	_ = left
	stop := false
	_ = pool.Run(jobs, func(r par.Result) {
		if stop {
			return
		}
		if r.Died || r.Hung {
			t.Errs = append(t.Errs, fmt.Sprintf("worker died/hung exploring below prefix %v: %s", frontier[r.Idx], r.Stderr))
			return
		}
		var res Res
		if err := json.Unmarshal(r.Out, &res); err != nil {
			t.Errs = append(t.Errs, err.Error())
			return
		}
		t.add(&res)
	})
	sort.Slice(t.Viol, func(i, j int) bool {
		if t.Viol[i].Devs != t.Viol[j].Devs {
			return t.Viol[i].Devs < t.Viol[j].Devs
		}
		return len(t.Viol[i].Choices) < len(t.Viol[j].Choices)
	})
	return t
}
