// Package racepass is the auxiliary free-running data-race pass of C03: the same kinds of calls the scheduler
// drivers make (Update / View / Batch / Stats / manual Begin-Rollback / Close), but on real goroutines without
// the cooperative scheduler, under the Go race detector. It is not the deciding step of any property.
package racepass

import (
	"fmt"
	"os"
	"path/filepath"
	"strconv"
	"sync"
	"testing"

	bolt "go.etcd.io/bbolt"
)

func rmw(tx *bolt.Tx, k string) error {
	b := tx.Bucket([]byte("c"))
	n, _ := strconv.Atoi(string(b.Get([]byte(k))))
	return b.Put([]byte(k), []byte(strconv.Itoa(n+1)))
}

func TestFreeRunningRace(t *testing.T) {
	dir := t.TempDir()
	for iter := 0; iter < 30; iter++ {
		for _, flt := range []bolt.FreelistType{bolt.FreelistArrayType, bolt.FreelistMapType} {
			path := filepath.Join(dir, fmt.Sprintf("db%d%s", iter, flt))
			db, err := bolt.Open(path, 0600, &bolt.Options{PageSize: 1024, FreelistType: flt, NoFreelistSync: iter%2 == 1})
			if err != nil {
				t.Fatal(err)
			}
			db.MaxBatchSize = 2
			if err := db.Update(func(tx *bolt.Tx) error {
				b, err := tx.CreateBucket([]byte("c"))
				if err != nil {
					return err
				}
				for i := 0; i < 20; i++ {
					_ = b.Put([]byte(fmt.Sprintf("k%02d", i)), make([]byte, 300))
				}
				return b.Put([]byte("x"), []byte("0"))
			}); err != nil {
				t.Fatal(err)
			}
			var wg sync.WaitGroup
			run := func(f func()) {
				wg.Add(1)
				go func() { defer wg.Done(); f() }()
			}
			for g := 0; g < 3; g++ {
				run(func() {
					for i := 0; i < 3; i++ {
						_ = db.Update(func(tx *bolt.Tx) error { return rmw(tx, "x") })
					}
				})
			}
			for g := 0; g < 2; g++ {
				run(func() {
					for i := 0; i < 4; i++ {
						_ = db.View(func(tx *bolt.Tx) error {
							return tx.Bucket([]byte("c")).ForEach(func(k, v []byte) error { return nil })
						})
					}
				})
			}
			for g := 0; g < 3; g++ {
				g := g
				run(func() {
					_ = db.Batch(func(tx *bolt.Tx) error {
						if g == 1 {
							return fmt.Errorf("fail")
						}
						return rmw(tx, "y")
					})
				})
			}
			run(func() {
				for i := 0; i < 5; i++ {
					_ = db.Stats()
				}
			})
			run(func() {
				tx, err := db.Begin(true)
				if err == nil {
					_ = rmw(tx, "x")
					_ = tx.Rollback()
				}
			})
			run(func() {
				tx, err := db.Begin(false)
				if err == nil {
					_, _ = tx.WriteTo(discard{})
					_ = tx.Rollback()
				}
			})
			if iter%3 == 2 {
				run(func() { _ = db.Close() })
			}
			wg.Wait()
			_ = db.Close()
			os.Remove(path)
		}
	}
}

type discard struct{}

func (discard) Write(p []byte) (int, error) { return len(p), nil }
