#!/usr/bin/env python3
"""Regenerates MANIFEST.json from the table below (kept valid at all times)."""
import json, subprocess
props=[json.loads(l)["id"] for l in open('/verif/properties.jsonl')]
hook_commits=subprocess.run(["git","-C","/repo","log","--format=%h","--grep=^verif:"],capture_output=True,text=True).stdout.split()
# id -> (level, technique, design_ref, text, note)
C={
"C01":("fault_enumeration","explicit-state BFS over API programs on the real code + exhaustive enumeration of crash images (sync epochs x unsynced-write subsets x sector/byte tearing) recovered by the real Open","DESIGN.md 4/C01",
  "For every explored program's last commit, every crash image the persistence model allows (per sync epoch: subsets of unsynced operations, sector tearing, torn meta) is recovered by the real code under two freelist configurations and must be the last acknowledged or (iff its meta is complete) the in-flight state, consistent and writable.",
  "Persistence model: fdatasync/fsync is a barrier, 512-byte sectors persist independently afterwards; not a model of a specific file system; NoSync and init-crash excluded as documented."),
"C05":("model_checking","exhaustive enumeration of cursor call sequences over all deletion subsets of fixed bucket shapes on the real code, sorted-list oracle","DESIGN.md 4/C05",
  "Every sequence of 3 (quick) / 4 (thorough) cursor calls from First/Last/Next/Prev/Seek(every key and gap) on every bucket shape x every subset of keys deleted (and every single gap put) in the same write tx, and in read transactions, equals a sorted list with a position; cursors created and positioned BEFORE the deletes/puts of a case and repositioned afterwards (valid reuse: every [R] and [R,X] with R a repositioning call, from every earlier position) behave like fresh ones; every call returns (a hang kills the worker and is reported).",
  "Shapes are fixed (6 shapes x 2 page sizes, tree depth of each asserted when built; the three-level one has 12 keys = 4096 deletion subsets); a per-call watchdog in the worker decides about hangs; cursor use after mutation without repositioning is excluded as documented."),
"C08":("fault_enumeration","explicit-state BFS over API programs with one injected failure at every I/O call index of every commit, run under the controlled scheduler for deadlock detection","DESIGN.md 4/C08",
  "For every explored state with an open write tx the commit is re-executed once per I/O call and failure shape; afterwards error returned, pre-state (or, after a complete meta write, the post-state in memory and on disk alike) visible to fresh and held readers, accounting exact, no page of a visible version allocatable, follow-up transactions and reopen work, no deadlock. Known finding F6 reported as such.",
  "One failure per execution; failures are injected through the tag-guarded I/O hook (write, fdatasync, fsync, truncate, mmap)."),
"C11":("model_checking","exhaustive enumeration of single-byte and partial-overwrite damages of the meta pages of files at rest, opened by the real code, own FNV-1a as oracle","DESIGN.md 4/C11",
  "Every byte position x every other value in either meta, every contiguous partial overlay of a would-be next meta, both metas damaged, every short length, non-databases; page sizes 1024/4096/16384 with the page-size option unset/equal/different, read-write and read-only.",
  "Files at rest after a successful commit; truncation inside the data area is outside the statement."),
"C09":("model_checking","explicit-state BFS over allocator operation sequences on the real allocator (both backends), map-iteration orders enumerated as choices, specification relation as oracle","DESIGN.md 4/C09",
  "Every sequence of up to 8 (quick) / 10 (thorough) allocator operations as the database can issue them over a universe of 12 page ids, <= 2 readers, both backends, every hash-map iteration order inside Allocate; plus the directed 0xFFFF-count enumeration; judged by the specification relation, not by a policy.",
  "Caller contract as alphabet guard; the 'randomly beyond the bound' half of the quantifier is not addressed."),
"C13":("model_checking","exhaustive enumeration of option assignments per open for a fixed history with two reopen points, executed on the real code, reference-model + decoder oracle","DESIGN.md 4/C13",
  "Every assignment of 8 options at the first reopen x the listed assignments at creation and second reopen, with read-only opens (preload on/off) in between: all API results and dumps equal the model, the loaded free list equals the decoder's unreachable set after every open, accounting exact.",
  "One fixed history in quick, two in thorough (the option space is what is enumerated); a failing transaction whose failed call is the remap is followed by a reopen (documented unmapped state); Mlock only if the sandbox permits it, kernel refusals are re-run without it and counted."),
"C14":("model_checking","stateless DFS over schedules of WriteTo against a committing writer (real code, controlled scheduler) + explicit-state BFS over backup/commit event orders","DESIGN.md 4/C14",
  "Every schedule (bounded preemptions) of a chunked WriteTo racing two page-recycling commits, and every order of reader/writer/backup events within the bound, incl. every single I/O failure of every commit with a backup reader held across: bytes = n = Size(), copy equals the reader's version, both metas valid with meta 0 winning, accounting/Tx.Check clean, copy opens and accepts a commit.",
  "The writer given to WriteTo yields at every Write call."),
"C17":("model_checking","exhaustive enumeration of open/close event sequences (in-process and across helper processes) against a lock table; of read-only API programs and CLI commands; of stores into all handed-out slices under the real PROT_READ mapping","DESIGN.md 4/C17",
  "Lock table over all event sequences up to the bound with 3 handles (one process / three processes) plus blocking opens under the controlled scheduler, failing opens followed by opens of the repaired file; every read-only program of the bound and every CLI inspection command - on files with and without a persisted freelist, alone and next to an open read-only handle - leaves length and SHA-256 unchanged, opens read-only and issues no write/sync/truncate (I/O tap); every store into handed-out memory faults or hits a private copy.",
  "flock/mmap semantics are the kernel's."),
"C18":("model_checking","exhaustive enumeration of MaxSize x AllocSize x InitialMmapSize x page size x workload configurations on the real code, file length checked after every operation","DESIGN.md 4/C18",
  "Every limit on a 2048- (quick) / 512-byte (thorough) grid from 4 pages to 96 KiB plus MiB-scale points, 3 alloc sizes, 4 initial map sizes, 2 page sizes, 6 workloads (incl. creeping growth that puts a single-page allocation on every page id), limit from the start or imposed later: length never exceeds max(limit, length at open); refused transactions leave content, accounting and length unchanged; reopen and a small transaction work.",
  "Compared op by op with the reference model."),
"C15":("model_checking","explicit-state BFS over source states x exhaustive enumeration of transaction-size limits, real Compact and CLI, reference-model oracle","DESIGN.md 4/C15",
  "Every source state of the exploration and every seed, compacted for every limit (exhaustive when small, else every limit that changes the split pattern) through the library and the CLI: destination equals the model incl. sequences, passes Tx.Check/accounting, source unchanged.",
  "CLI run in-process via command.NewRootCommand()."),
"C19":("fault_enumeration","exhaustive enumeration of single structural corruptions (decoder-guided byte surgery) of consistent files; Tx.Check under both backends and the CLI must report","DESIGN.md 4/C19",
  "Every single corruption of each listed class (incl. out-of-order freelists and overflow counts that swallow the next page) at every eligible place of each seed state (freelist persisted by either backend or not) must be reported by Tx.Check (both backends) and by `bbolt check` (non-zero exit, in-process and binary); unmutated files must be clean.",
  "A mutation counts only if the independent decoder sees the intended class; cycles excluded; not-openable files count for the CLI only."),
"C20":("model_checking","explicit-state BFS over API programs; after every commit the real surgery commands are run on a copy and judged by reference model + independent decoder","DESIGN.md 4/C20",
  "After every commit of every explored program: freelist abandon, abandon+rebuild and revert-meta-page produce exactly the promised file (content, free set = unreachable set, previous version), pass Tx.Check/accounting, accept a commit; sources stay byte-identical, only the output file is created.",
  "Commands run in-process through the real cobra command tree."),
"C02":("model_checking","stateless DFS over thread schedules (preemption-bounded) of the real code under a controlled scheduler + explicit-state BFS over reader/writer event orders","DESIGN.md 4/C02",
  "Every schedule (bounded preemptions) of reader threads against a page-recycling / map-outgrowing writer, and every order of reader/writer/rollback/reopen events within the bound: each reader dump equals the version its id names and never changes; exhaustive within the bounds.",
  "Cooperative scheduler preempts at lock, channel, once and I/O operations of the instrumented build (generated from the current tree); reader-internal preemption argued unnecessary in DESIGN.md."),
"C03":("model_checking","stateless DFS over thread schedules (preemption-bounded) of the real code under a controlled scheduler, serial-replay oracle","DESIGN.md 4/C03",
  "Every schedule with bounded preemptions of 2-3 threads calling Update/View/Begin/Rollback/Commit/Stats/Close with committing, failing and panicking bodies: serial-replay oracle, consecutive ids, real-time order, single writer, no deadlock.",
  "Data-race freedom is not decided by this technique (auxiliary -race pass reported separately)."),
"C16":("model_checking","stateless DFS over thread/timer schedules (delay-bounded) of the real Batch code under a controlled scheduler","DESIGN.md 4/C16",
  "Every schedule with bounded deviations of 2-3 Batch callers with succeeding/failing/panicking functions for batch sizes 0..3 and delays 0/10ms: nil => applied exactly once, error/panic => not applied, no foreign error, no sentinel, no deadlock.",
  "Virtual time; timers and the trigger goroutine are scheduled objects of the instrumented build."),
"C04":("model_checking","explicit-state BFS over API programs executed on the real code, reference-model oracle","DESIGN.md 4/C04",
  "Every API program up to the stated operation bound from every seed state/configuration is executed by the real code and compared step by step with a nested-map reference model; exhaustive within the bound, nothing sampled.",
  "Trusted: refmodel (documented API contract), the harness executor; bounded alphabets of keys/values/bucket names; state merging by exact state key."),
"C06":("model_checking","explicit-state BFS over API programs on the real code with a write monitor on every WriteAt","DESIGN.md 4/C06",
  "Every write the real code issues in every explored program (readers of all ages, rollbacks, reopen, nested delete/move) is checked when issued against the page sets of all visible committed versions and the meta-slot rule; exhaustive within the operation bound.",
  "Trusted: boltfmt page sets computed at commit time; the tag-guarded write hook sees every WriteAt of the data file."),
"C07":("model_checking","explicit-state BFS over API programs on the real code, independent page-accounting decoder as oracle","DESIGN.md 4/C07",
  "After every commit, rollback and reopen of every explored program the independent decoder must account for every page exactly once and Stats/Tx.Page/Tx.Check must agree; exhaustive within the operation bound; known finding F5 is reported as such.",
  "Trusted: boltfmt (cross-validated three ways on every state); bounded alphabets."),
"C10":("model_checking","explicit-state BFS over reader/writer event orders on the real code, allocator state inspected at every writer begin and commit","DESIGN.md 4/C10",
  "Every order of reader open/close, writer begin/commit/rollback and reopen within the bound; at each writer begin no allocatable page belongs to a visible version and nothing stays pending without readers; after commits only that commit's releases are withheld; after every single I/O failure of every commit (readers held across) no page of a visible version is allocatable.",
  "Finite horizon only for the no-unbounded-growth clause; page sets from boltfmt; freelist state through the tag-guarded accessor."),
"C12":("model_checking","explicit-state BFS over API programs; every produced file decoded by an independent version-2 reader and compared with model and API","DESIGN.md 4/C12",
  "Every file at every transaction boundary of the explorations (all configurations/page sizes) is decoded by a reader written only from the published layout and must equal the reference model and the API dump; meta slots, parity, checksum, flags checked; backups and files after failed commits are decoded too; a golden corpus written by the pinned build must still open with its recorded content; hand-encoded version-2 files with freelists around the 0xFFFF count boundary must open with exactly the listed ids free and decode again after a commit.",
  "Trusted: boltfmt's reading of the version-2 layout."),
}
checks=[]
for pid,(lvl,tech,ref,text,note) in sorted(C.items()):
    checks.append({"property_id":pid,"quick_cmd":f"./run {pid} quick","thorough_cmd":f"./run {pid} thorough",
      "evidence_file":f"/verif/evidence/{pid}.json","replay_cmd_template":"./run replay {path}","engine":"vcheck",
      "level_claimed":{"category":lvl,"text":text,"design_ref":ref},"level_note":note,"technique":tech})
m={"version":1,"setup_cmd":"./run setup",
 "hooks":{"guard":"verif","enable":"go build -tags verif (./run builds the harness module with `replace go.etcd.io/bbolt => /repo` and the tag on)",
   "baseline_off_cmd":"cd /repo && go test -mod=mod -vet=off -count=1 -timeout 25m ./...","source_commits":hook_commits,"add_only":True},
 "engines":[{"name":"vcheck","path":"/verif/harness","serves_properties":sorted(C),"kind_free_text":"hand-written implementation-level model checker: explicit-state BFS over API programs (hx), stateless DFS over schedules / choices with deviation bounding under a controlled scheduler (mc, vsync, vtime; instrumentation overlay generated from the current tree by vrewrite), crash-image and I/O-fault enumeration (apix), worker-process pool (par), reference model (refmodel), independent file-format decoder and mutator (boltfmt)"}],
 "checks":checks,
 "notes":"All 20 properties are claimed and decided by bounded exhaustive exploration of the real code (DESIGN.md: sections 4 and 9 per property, 10 = which check catches which seeded change). Known findings F5, F6: known_findings.json. Every quick and every thorough tier has been run to its end on the unchanged tree (exit 0).",
 "not_applicable":[{"property_id":p,"reason":"check not built yet (work in progress, see DESIGN.md section 8)"} for p in props if p not in C]}
json.dump(m,open('/verif/MANIFEST.json','w'),indent=1)
import jsonschema
jsonschema.validate(m,json.load(open('/root/.vp/MANIFEST.schema.json')))
print("manifest ok:",len(checks),"checks")
