#!/usr/bin/env python3
"""Regenerates MANIFEST.json from the table below (kept valid at all times)."""
import json, subprocess
props=[json.loads(l)["id"] for l in open('/verif/properties.jsonl')]
hook_commits=subprocess.run(["git","-C","/repo","log","--format=%h","--grep=^verif:"],capture_output=True,text=True).stdout.split()
# id -> (level, technique, design_ref, text, note)
C={
"C04":("model_checking","explicit-state BFS over API programs executed on the real code, reference-model oracle","DESIGN.md 4/C04",
  "Every API program up to the stated operation bound from every seed state/configuration is executed by the real code and compared step by step with a nested-map reference model; exhaustive within the bound, nothing sampled.",
  "Trusted: refmodel (documented API contract), the harness executor; bounded alphabets of keys/values/bucket names; state merging by exact state key."),
}
checks=[]
for pid,(lvl,tech,ref,text,note) in sorted(C.items()):
    checks.append({"property_id":pid,"quick_cmd":f"./run {pid} quick","thorough_cmd":f"./run {pid} thorough",
      "evidence_file":f"/verif/evidence/{pid}.json","replay_cmd_template":"./run replay {path}","engine":"vcheck",
      "level_claimed":{"category":lvl,"text":text,"design_ref":ref},"level_note":note,"technique":tech})
m={"version":1,"setup_cmd":"./run setup",
 "hooks":{"guard":"verif","enable":"go build -tags verif (./run builds the harness module with `replace go.etcd.io/bbolt => /repo` and the tag on)",
   "baseline_off_cmd":"cd /repo && go test -mod=mod -vet=off -count=1 -timeout 25m ./...","source_commits":hook_commits,"add_only":True},
 "engines":[{"name":"vcheck","path":"/verif/harness","serves_properties":sorted(C),"kind_free_text":"hand-written implementation-level model checker: explicit-state BFS over API programs (hx), worker-process pool (par), reference model (refmodel), independent file-format decoder (boltfmt)"}],
 "checks":checks,
 "notes":"Work in progress: properties are being added one by one; see DESIGN.md.",
 "not_applicable":[{"property_id":p,"reason":"check not built yet (work in progress, see DESIGN.md section 8)"} for p in props if p not in C]}
json.dump(m,open('/verif/MANIFEST.json','w'),indent=1)
import jsonschema
jsonschema.validate(m,json.load(open('/root/.vp/MANIFEST.schema.json')))
print("manifest ok:",len(checks),"checks")
