#!/usr/bin/env python3
"""tools/keep_meta.py <seed dir name> <Cxx> <round> <needs> <first_run> <detected json> - writes meta.json for a confirmed seeded change
(confirmation log expected at /tmp/seedconfirm/<seed dir name>.log, written by tools/confirm_seed.sh ... suite)."""
import sys, os, json, re
name, prop, rnd, needs, first, detected = sys.argv[1], sys.argv[2], int(sys.argv[3]), sys.argv[4], sys.argv[5], json.loads(sys.argv[6])
dst = f"/verif/seeded/{name}"
log = f"/tmp/seedconfirm/{name}.log"
lines = open(log).read().strip().splitlines()
assert lines and lines[-1].startswith("RESULT confirmed"), lines[-2:]
demo = open(f"{dst}/demo_test.go").read()
pkg = "package " + re.search(r'^package (\w+)', demo, re.M).group(1)
meta = {"property": prop, "round": rnd, "what_it_needs_to_manifest": needs,
  "demo": {"file": "demo_test.go", "package": pkg, "copy_to": "repository root", "run": "go test -vet=off -count=1 -run 'TestSeedDemo$' ."},
  "what_i_ran": ["tools/confirm_seed.sh <dir> . suite: scratch worktree of /repo HEAD, git apply patch.diff, go build ./..., demo FAILS with the change, git apply -R, demo PASSES: " + lines[-2],
                 "the repository's suite with the change (go test -vet=off -count=1 -timeout 25m ./...; tests that failed besides the 8 baseline failpoint tests are re-run alone, wall-clock test TestDB_Open_InitialMmapSize fails under machine load with and without any change): " + lines[-1],
                 "tools/try_patch.sh patch.diff <checks>: quick checks against a scratch worktree with the change (VERIF_REPO)"],
  "first_run": first, "detected_by": detected, "origin": "independent sub-agent given only the property text and a scratch worktree"}
json.dump(meta, open(f"{dst}/meta.json", "w"), indent=1)
print("kept", dst)
