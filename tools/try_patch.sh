#!/bin/bash
# tools/try_patch.sh <patch.diff> [Cxx ...]   — applies a deliberately broken change to a scratch worktree of /repo
# and runs the quick checks against it (VERIF_REPO), without touching /repo or the committed evidence.
# Prints one line per check: Cxx exit=<code> [VIOLATION...]
set -u
PATCH="$(realpath "$1")"; shift
CHECKS="$*"
[ -z "$CHECKS" ] && CHECKS="C01 C02 C03 C04 C05 C06 C07 C08 C09 C10 C11 C12 C13 C14 C15 C16 C17 C18 C19 C20"
TIER="${TRY_TIER:-quick}"
WT="$(mktemp -d /tmp/try-XXXXXX)"
OUT="$(mktemp -d /tmp/tryout-XXXXXX)"
rmdir "$WT"
git -C /repo worktree add -q "$WT" HEAD || exit 2
trap 'git -C /repo worktree remove --force "$WT" 2>/dev/null; rm -rf "$OUT" "/verif/.build/alt-$(echo "$WT" | cksum | cut -d" " -f1)"' EXIT
if ! git -C "$WT" apply "$PATCH"; then echo "patch does not apply"; exit 2; fi
cd /verif
for c in $CHECKS; do
  VERIF_REPO="$WT" VERIF_OUT="$OUT" ./run "$c" "$TIER" > "$OUT/$c.log" 2>&1
  rc=$?
  v=$(grep -m1 -A1 "^VIOLATION" "$OUT/$c.log" | tail -1 | cut -c1-220)
  [ $rc -eq 2 ] && v=$(grep -m2 "BUILD-FAILURE\|harness error" "$OUT/$c.log" | head -2 | tr '\n' ' ' | cut -c1-220)
  echo "$c exit=$rc $v"
done
