#!/bin/bash
# tools/confirm_seed.sh <seed dir with patch.diff + demo_test.go> <package dir relative to repo root for the demo (default .)> [suite]
# Confirms a seeded breaking change in a scratch worktree: builds, demo fails with / passes without; with "suite" as
# third argument also runs the repository's own tests with the change. Prints a summary; exit 0 if confirmed.
set -u
SD="$(realpath "$1")"; PKG="${2:-.}"; SUITE="${3:-}"
export GOFLAGS=-mod=mod GOPROXY=off
WT="$(mktemp -d /tmp/confirm-XXXXXX)"; rmdir "$WT"
git -C /repo worktree add -q "$WT" HEAD || exit 2
trap 'git -C /repo worktree remove --force "$WT" 2>/dev/null' EXIT
cd "$WT"
git apply "$SD/patch.diff" || { echo "RESULT patch-does-not-apply"; exit 1; }
go build ./... || { echo "RESULT build-fails"; exit 1; }
DEMO="$SD/demo_test.go"; [ -f "$DEMO" ] || DEMO=$(ls "$SD"/demo*_test.go 2>/dev/null | head -1)
cp "$DEMO" "$PKG/zz_seed_demo_test.go"
(cd "$PKG" && timeout 600 go test -vet=off -count=1 -run 'TestSeedDemo$' . > "$WT/with.log" 2>&1); WITH=$?
git apply -R "$SD/patch.diff"
(cd "$PKG" && timeout 600 go test -vet=off -count=1 -run 'TestSeedDemo$' . > "$WT/without.log" 2>&1); WITHOUT=$?
echo "demo with change: exit $WITH ($(tail -1 "$WT/with.log" | cut -c1-80)); without: exit $WITHOUT ($(tail -1 "$WT/without.log" | cut -c1-80))"
rm -f "$PKG/zz_seed_demo_test.go"
S="not-run"
if [ "$SUITE" = "suite" ]; then
  git apply "$SD/patch.diff"
  go test -vet=off -count=1 -timeout 90m ./... > "$WT/suite.log" 2>&1
  cp "$WT/suite.log" "$SD/suite_confirm.log"
  # tests other than the 8 baseline failpoint failures that failed: wall-clock tests (TestDB_Open_InitialMmapSize: "a 128 MiB
  # commit within 5 s") fail on a loaded machine with and without any change, so each is re-run alone up to 5 times
  BAD=0; RETRIED=""
  for t in $(grep -E "^--- FAIL" "$WT/suite.log" | grep -v "TestFailpoint\|TestIssue72\|TestTx_Rollback_Freelist" | sed 's/^--- FAIL: \([^ ]*\).*/\1/' | sort -u); do
    okk=0
    for i in 1 2 3 4 5; do
      if go test -vet=off -count=1 -timeout 20m -run "^$t\$" . >> "$WT/retry.log" 2>&1; then okk=1; break; fi
      sleep 20
    done
    RETRIED="$RETRIED $t:alone=$okk"
    [ $okk -eq 0 ] && BAD=$((BAD+1))
  done
  PK=$(grep -E "^FAIL\s" "$WT/suite.log" | grep -v "tests/failpoint\|go.etcd.io/bbolt\s" | wc -l)
  TMO=$(grep -c "panic: test timed out" "$WT/suite.log")
  S="suite-nonbaseline-failures=$BAD other-failed-packages=$PK timeouts=$TMO retried:[$RETRIED ]"
fi
if [ $WITH -ne 0 ] && [ $WITHOUT -eq 0 ]; then echo "RESULT confirmed $S"; exit 0; else echo "RESULT not-confirmed $S"; exit 1; fi
