#!/usr/bin/env python3
"""tools/keep_seed.py <Cxx> <slug> <needs text> <detected json>  - stores a confirmed seeded change under /verif/seeded."""
import sys, os, json, shutil, re
prop, slug, needs, detected = sys.argv[1], sys.argv[2], sys.argv[3], json.loads(sys.argv[4])
src = f"/tmp/seed/{prop}/SEED"
dst = f"/verif/seeded/{prop}-{slug}"
os.makedirs(dst, exist_ok=True)
shutil.copy(f"{src}/patch.diff", f"{dst}/patch.diff")
demo = f"{src}/demo_test.go"
if os.path.exists(demo): shutil.copy(demo, f"{dst}/demo_test.go")
if os.path.exists(f"{src}/NOTES.md"): shutil.copy(f"{src}/NOTES.md", f"{dst}/NOTES.md")
suite = "not yet confirmed by me"
log = f"/tmp/seedconfirm/{prop}.log"
if os.path.exists(log):
    t = open(log).read().strip().splitlines()
    if t: suite = t[-1]
pkg = "package bbolt"
if os.path.exists(demo):
    m = re.search(r'^package (\w+)', open(demo).read(), re.M)
    if m: pkg = "package " + m.group(1)
meta = {"property": prop, "what_it_needs_to_manifest": needs,
        "demo": {"file": "demo_test.go", "package": pkg, "copy_to": os.environ.get("COPY_TO", "repository root"), "run": "go test -vet=off -count=1 -run 'TestSeedDemo$' ."},
        "what_i_ran": ["tools/confirm_seed.sh: scratch worktree of /repo HEAD, git apply patch.diff, go build ./..., demo FAILS with the change, git apply -R, demo PASSES",
                       "tools/confirm_seed.sh ... suite: go test -vet=off -count=1 -timeout 25m ./... with the change: " + suite,
                       "tools/try_patch.sh patch.diff <checks>: quick checks against a scratch worktree with the change (VERIF_REPO)"],
        "detected_by": detected, "origin": "independent sub-agent given only the property text"}
json.dump(meta, open(f"{dst}/meta.json", "w"), indent=1)
print("kept", dst)
