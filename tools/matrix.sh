#!/bin/bash
# tools/matrix.sh — re-runs every kept seeded change against the check(s) recorded as detecting it (quick tier).
cd /verif
for d in seeded/*/; do
  n=$(basename $d)
  checks=$(python3 -c "
import json
m=json.load(open('$d/meta.json'))
print(' '.join(sorted({x['check'] for x in m['detected_by'] if x['check'].startswith('C') and len(x['check'])==3})))")
  out=$(timeout 3000 tools/try_patch.sh $d/patch.diff $checks 2>&1 | grep "^C[0-9][0-9] exit" | sed 's/ exit=/=/' | cut -c1-7 | tr '\n' ' ')
  echo "$n -> $out"
done
